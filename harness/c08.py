"""C08 — same seed, same result: random streams are reproducible and kept apart;
weighted random choice; unused-seed search.

Correspondence (real skyllh code vs. coq/model/M_Random.v):
  * RandomChoice (real class, stub service returning prescribed uniforms) vs. the
    extracted model run on IEEE doubles (ocaml/c08): exact index comparison;
  * extend_trial_data_file (real function, create_trial_data_file captured) vs.
    `extend_seed` by vm_compute: all subsets of {0..6} x every service seed;
  * parallelize (real, forked workers) vs. `proc_rss` on the table machine;
  * do_trial / do_trials / generate_pseudo_data / LLHRatio.maximize /
    Minimizer.minimize / ParameterSet.generate_random_floating_param_initials /
    MCDataSamplingBkgGenMethod.generate_events / RandomChoice (all real) with a
    request-recording RandomState vs. `do_trial` on the logging machine: the
    sequence of requests per stream;
  * equal-seed runs compared bytewise, also after unrelated prior use.
Predicates: independent brute-force readings of the property on every
implementation result."""
import ast
import os
import struct

import numpy as np

from harness import common
from harness.common import zlit, zlist

GEN_MODULES = ['random']
MODEL_TARGETS = ['model/M_Random.vo']
PROOF_TARGETS = ['proofs/P_Random.vo', 'proofs/P_RandomChoice.vo', 'proofs/P_RandomOrder.vo']
LEVEL = 'proof'
RULE = ('RandomChoice: probability vectors of 1..1e5 items (float64/float32; leading/inner/trailing zeros, one-hot, '
        'heavy-tailed, dyadic) x prescribed uniforms (0.0, cdf entries and their neighbours, 1-2^-53, random) plus a '
        'malformed stream; seed search: every subset of {0..6} x every service seed 0..7 (+ large random seed columns); '
        'workers: ncpu 1..4 x seeds incl. 0; completion order: ncpu 3..5 (also > number of tasks) x every single delayed worker, bytewise vs. a sequential oracle; trials: minimiser scripts with 0..max restarts x bkg/sig configurations; '
        'a case is non-trivial when distinct by content hash and (for choice) has >= 1 item and >= 1 draw')
TRUSTED = [
    'Coq 8.16.1 kernel incl. vm_compute (no native_compute)',
    'all 29 theorems closed under the global context (no axioms); C08_choice / C08_choice_accepted are closed over eight / thirteen order and monotonicity '
    'premises on the carrier (proved for the rationals: C08_choice_Q, C08_choice_accepted_Q); that finite IEEE doubles without overflow meet '
    'them (monotone rounding, x/x = 1, 0/x = 0) is a trusted reading, exercised bit-exactly by the correspondence',
    'the generator is an abstract deterministic machine (Section variables rng/seed_rng/draw): MT19937 itself is not modelled',
    'generate_background_events / generate_signal_events are arbitrary state-passing functions of the service they are '
    'handed (premise: all randomness flows through the passed RandomStateService - checked by the request traces, the '
    'equal-seed runs and a static scan for np.random.* globals)',
    'translator/py2coq.py (95 kernels of G_random.v pinned by K_* lemmas)',
    'extraction (ExtrOcamlBasic only) + ocaml/c08/driver.ml + ocaml/common/numf.ml for the float run of RandomChoice',
    'np.searchsorted on a non-decreasing table = number of entries <= v (side=right); np.cumsum = sequential sum; '
    'np.sum in _assert_probabilities read left-to-right (decision kept away from atol)',
    'hand model M_Random.v of control flow and of which service each call receives, validated by this correspondence',
    'the aliased call do_trial(rss, minimizer_rss=rss) is modelled separately (do_trial_aliased, C08_alias_partial / _refuted)',
    'signal generation: the consequences of the drawn candidates (invalid events per group, valid events per re-draw) are oracles; '
    'the unbounded re-draw loop carries fuel (C08_signal_redraw_terminates / _diverges)',
]

IMPORTS = ('From Coq Require Import ZArith List Bool. Import ListNotations. Open Scope Z_scope.\n'
           'From Sky Require Import Result PyList Num G_random M_Random.\n')

EPS64 = 2.0 ** -52
EPS32 = 2.0 ** -23


def exc_name(ex):
    n = type(ex).__name__
    return {'AxisError': 'IndexError'}.get(n, n)


# ===================================================================== RandomChoice

class StubRSS:
    """RandomStateService stand-in whose random(size) returns prescribed numbers"""
    class _R:
        def __init__(self, xs):
            self.xs = xs

        def random(self, size=None):
            assert size == len(self.xs), (size, len(self.xs))
            return np.array(self.xs, dtype=np.float64)

    def __init__(self, xs):
        self.random = StubRSS._R(xs)


def gen_weights(rng, n, shape):
    if shape == 'uniform':
        w = [rng.random() + 1e-3 for _ in range(n)]
    elif shape == 'heavy':
        w = [rng.paretovariate(1.1) for _ in range(n)]
    elif shape == 'zeros':
        w = [rng.random() if rng.random() < 0.4 else 0.0 for _ in range(n)]
    elif shape == 'lead-trail':
        a = rng.randint(0, max(0, n // 3))
        b = rng.randint(0, max(0, n // 3))
        w = [0.0] * a + [rng.random() + 1e-3 for _ in range(max(0, n - a - b))] + [0.0] * b
        w = (w + [0.0] * n)[:n]
    elif shape == 'onehot':
        w = [0.0] * n
        w[rng.randrange(n)] = 1.0
    elif shape == 'tiny':
        w = [rng.choice([1e-300, 1e-18, 1.0, 0.0, 3.0]) for _ in range(n)]
    elif shape == 'dyadic':
        w = [float(rng.randint(0, 8)) for _ in range(n)]
    else:
        raise ValueError(shape)
    if not any(x > 0 for x in w):
        w[rng.randrange(n)] = 1.0
    return w


def gen_choice_case(ctx, rng, n=None, shape=None, dtype=None, nu=None):
    n = n or rng.choice([1, 1, 2, 2, 3, 4, 5, 8, 13, 33, 100, 257])
    shape = shape or rng.choice(['uniform', 'heavy', 'zeros', 'zeros', 'lead-trail', 'lead-trail', 'onehot', 'tiny', 'dyadic'])
    dtype = dtype or rng.choice(['f8', 'f8', 'f4'])
    w = np.array(gen_weights(rng, n, shape), dtype=np.float64)
    p = w / w.sum()
    if shape == 'dyadic':
        # exact dyadic probabilities with an exact sum of 1: pad to a power of two
        tot = int(w.sum())
        k = 1
        while k < tot:
            k *= 2
        w[int(np.argmax(w > 0))] += k - tot
        p = w / k
    p = p.astype(np.float32 if dtype == 'f4' else np.float64)
    ctx.count(f'choice:shape:{shape}')
    ctx.count(f'choice:dtype:{dtype}')
    ctx.count('choice:n:' + ('1' if n == 1 else '2-9' if n < 10 else '10-999' if n < 1000 else '1e3-1e5'))
    return {'kind': 'choice', 'p': [float(x).hex() for x in p], 'dtype': dtype, 'nu': nu,
            'items': None, 'junk': rng.randint(-5, 10 ** 6), 'shape': shape}


def prescribed_uniforms(rng, cdf, k):
    """0.0, 1-2^-53, cdf entries themselves and their float neighbours, random"""
    us = [0.0, 1.0 - 2.0 ** -53]
    n = len(cdf)
    pick = set([0, n - 1, n // 2] + [rng.randrange(n) for _ in range(min(n, 6))])
    for i in pick:
        c = float(cdf[i])
        for v in (c, np.nextafter(c, 0.0), np.nextafter(c, 2.0)):
            v = float(v)
            if 0.0 <= v < 1.0:
                us.append(v)
    while len(us) < k:
        us.append(rng.random())
    rng.shuffle(us)
    return us[:max(k, 2)]


def items_of(case, n):
    return case['items'] if case['items'] is not None else [7 + 3 * i for i in range(n)]


def impl_choice(case):
    """run the real RandomChoice; returns (impl result, cdf or None)"""
    from skyllh.core.random import RandomChoice
    p = np.array([hex_or_nan(x) for x in case['p']], dtype=np.float64)
    if case['dtype'] == 'f4':
        p = p.astype(np.float32)
    items = np.array(items_of(case, len(p)), dtype=np.int64)
    try:
        rc = RandomChoice(items=items, probabilities=p)
    except Exception as ex:
        return ['Err', exc_name(ex)], None
    cdf = np.array(rc._cdf)
    try:
        out = rc(StubRSS([float.fromhex(x) for x in case['u']]), size=len(case['u']))
        return ['Ok'] + [int(x) for x in out], cdf
    except Exception as ex:
        return ['Err', exc_name(ex)], cdf


def model_line(case):
    p = [hex_or_nan(x) for x in case['p']]
    u = [float.fromhex(x) for x in case['u']]
    items = items_of(case, len(p))
    # argsort oracle: any sorting permutation is admissible (C08_choice_unsort);
    # Python's stable sort is used, not numpy's
    perm = sorted(range(len(u)), key=lambda i: (u[i] != u[i], u[i]))
    if case.get('perm_reverse_ties'):
        perm = sorted(range(len(u)), key=lambda i: (u[i] != u[i], u[i], -i))
    epsp = EPS32 if case['dtype'] == 'f4' else EPS64
    return ' '.join(['rc', common.fhex(EPS64), common.fhex(epsp), str(case['junk']), '|']
                    + [str(i) for i in items] + ['|'] + [common.fhex(x) if x == x else 'nan' for x in p] + ['|']
                    + [common.fhex(x) for x in u] + ['|'] + [str(i) for i in perm])


def choice_predicate(ctx, case, impl):
    """the property read directly on the implementation's output"""
    if impl[0] != 'Ok':
        ctx.violation('RandomChoice.__call__', 'raises-' + impl[1], 'raises for a legal probability vector',
                      case=case, impl=impl, predicate='returns size items')
        return
    p = [float.fromhex(x) for x in case['p']]
    u = [float.fromhex(x) for x in case['u']]
    items = items_of(case, len(p))
    pos = {it: i for i, it in enumerate(items)}
    out = impl[1:]
    if len(out) != len(u):
        ctx.violation('RandomChoice.__call__', 'wrong-count', f'{len(out)} items for size {len(u)}',
                      case=case, impl=impl, predicate='len(result) == size')
        return
    # independent reference cdf in extended precision
    ref = np.cumsum(np.array(p, dtype=np.longdouble))
    ref = ref / ref[-1]
    for ui, it in zip(u, out):
        i = pos.get(it)
        if i is None:
            ctx.violation('RandomChoice.__call__', 'foreign-item', f'{it} is not an item', case=case, impl=impl)
            return
        if not p[i] > 0:
            ctx.violation('RandomChoice.__call__', 'zero-probability-item',
                          f'item #{i} with probability {p[i]} chosen for u={ui!r}', case=case, impl=impl,
                          predicate='p[idx] > 0')
            return
        lo = float(ref[i - 1]) if i > 0 else 0.0
        hi = float(ref[i])
        if not (lo - 1e-9 <= ui < hi + 1e-9):
            ctx.violation('RandomChoice.__call__', 'wrong-item', f'u={ui!r} outside cdf bracket [{lo},{hi}) of item #{i}',
                          case=case, impl=impl, predicate='cdf[i-1] <= u < cdf[i]')
            return


def malformed_choice_cases(rng):
    out = []

    def mk(p, u, dtype='f8', items=None, note=''):
        return {'kind': 'choice', 'p': [float(x).hex() if x == x else 'nan' for x in p], 'dtype': dtype,
                'u': [float(x).hex() for x in u], 'items': items, 'junk': 0, 'shape': 'malformed:' + note, 'malformed': True}
    out.append(mk([0.5, -0.5, 1.0], [0.1], note='negative'))
    out.append(mk([0.5, 0.25], [0.1], note='sum-low'))
    out.append(mk([0.5, 0.75], [0.1], note='sum-high'))
    out.append(mk([0.5, 0.5], [0.1], items=[1, 2, 3], note='size-mismatch'))
    out.append(mk([0.5, 0.5, 0.0], [0.1], items=[1, 2], note='size-mismatch'))
    out.append(mk([], [0.1], items=[], note='empty'))
    out.append(mk([0.25, 0.75], [1.0, 0.2], note='u-is-one'))
    out.append(mk([0.25, 0.75], [], note='size-zero'))
    out.append(mk([1.0 - 1e-3, 0.0], [0.3], note='sum-off-1e-3'))
    out.append(mk([0.5, 0.5 + 1e-3], [0.3], dtype='f4', note='f4-sum-off-1e-3'))
    out.append(mk([0.5, 0.5 + 1e-5], [0.3, 0.9], dtype='f4', note='f4-sum-within-atol'))
    out.append(mk([0.5, 0.5 + 1e-10], [0.3, 0.9], note='f8-sum-within-atol'))
    # corpus of fix ff17b6a: NaN entries used to pass _assert_probabilities (both comparisons False); now ValueError
    out.append(mk([0.0, float('nan'), 0.5], [0.3, 0.9, 0.0], note='nan'))
    out.append(mk([0.25, 0.25, float('nan')], [0.1, 0.6], note='nan-last'))
    return out


def hex_or_nan(x):
    return float('nan') if x == 'nan' else float.fromhex(x)


def run_choice(ctx, exe, cases):
    impls, lines, keep = [], [], []
    for c in cases:
        if c.get('u') is None:
            # prescribed uniforms need the cdf: take it from an independent cumsum
            p = np.array([float.fromhex(x) for x in c['p']], dtype=np.float64)
            cdf = np.cumsum(p)
            cdf = cdf / cdf[-1]
            c['u'] = [float(x).hex() for x in prescribed_uniforms(ctx.rng, cdf, c.get('nu') or ctx.rng.choice([2, 5, 9, 17]))]
        impl, _ = impl_choice(c)
        ctx.case({'p': c['p'], 'u': c['u'], 'dtype': c['dtype'], 'items': c['items']},
                 nontrivial=len(c['p']) > 0 and len(c['u']) > 0)
        if not c.get('malformed'):
            choice_predicate(ctx, c, impl)
        else:
            ctx.count('choice:malformed:' + impl[0] + (':' + impl[1] if impl[0] == 'Err' else ''))
            if c['shape'].startswith('malformed:nan') and impl != ['Err', 'ValueError']:
                ctx.violation('RandomChoice.__call__', 'nan-probability-accepted', 'a probability vector containing NaN was accepted',
                              case=c, impl=impl, predicate='NaN is not a probability')
        impls.append(impl)
        lines.append(model_line(c))
        keep.append(c)
    if exe is None:
        return
    outs = common.ocaml_run(exe, lines)
    for c, impl, o in zip(keep, impls, outs):
        ctx.corr_cases += 1
        w = o.split()
        model = ['Ok'] + [int(x) for x in w[1:]] if w and w[0] == 'OK' else ['Err'] + w[1:]
        if model != impl:
            small = dict(c)
            if len(small['p']) > 64:
                small = {k: (v if k not in ('p',) else v[:8] + ['...']) for k, v in small.items()}
                small['n'] = len(c['p'])
            ctx.disagree('RandomChoice', small, impl[:40], model[:40])


# ===================================================================== seed search

def impl_extend_seed(rss_seed, seeds):
    """run the real extend_trial_data_file with create_trial_data_file captured"""
    import skyllh.core.utils.analysis as ua
    from skyllh.core.random import RandomStateService
    captured = {}
    dt = [('seed', np.int64), ('ts', np.float64)]

    def fake_create(ana, rss, n_trials, **kwargs):
        captured['seed'] = rss.seed
        captured['first'] = int(rss.random.randint(0, 2 ** 31))
        tr = np.zeros((n_trials,), dtype=dt)
        tr['seed'] = rss.seed
        return (rss.seed, 0, 0, tr)

    td = np.zeros((len(seeds),), dtype=dt)
    td['seed'] = seeds
    orig = ua.create_trial_data_file
    ua.create_trial_data_file = fake_create
    try:
        rss = RandomStateService(seed=rss_seed)
        try:
            out = ua.extend_trial_data_file(ana=None, rss=rss, n_trials=2, trial_data=td)
        except Exception as ex:
            return ['Err', exc_name(ex)], None
    finally:
        ua.create_trial_data_file = orig
    new_rows = [int(x) for x in out['seed'][len(seeds):]]
    ok_stream = captured['first'] == int(np.random.RandomState(captured['seed']).randint(0, 2 ** 31))
    return ['Ok', int(captured['seed'])], {'new_rows': new_rows, 'service_seed_after': rss.seed, 'stream_reseeded': ok_stream,
                                           'old_rows': [int(x) for x in out['seed'][:len(seeds)]]}


def run_seed(ctx):
    cases = []
    for mask in range(128):
        sub = [i for i in range(7) if mask >> i & 1]
        for s in range(8):
            cases.append((s, sub))
    # order / duplicates must not matter; the fixed defect's input {0,1}
    cases += [(1, [1, 0, 1, 0]), (0, [0, 1]), (1, [0, 1]), (2, [5, 4, 3, 2, 1]), (3, [3, 3, 3]), (0, [0])]
    n_rand = ctx.budget(40, 4000)
    rng = ctx.rng
    for _ in range(n_rand):
        k = rng.choice([1, 3, 10, 40, 200])
        style = rng.choice(['dense', 'sparse', 'neg', 'dups'])
        if style == 'dense':
            col = [rng.randint(0, k + 2) for _ in range(k)]
        elif style == 'sparse':
            col = [rng.randint(0, 10 ** 6) for _ in range(k)]
        elif style == 'neg':
            col = [rng.randint(-k, k) for _ in range(k)]
        else:
            col = [rng.choice([1, 2, 3, 4]) for _ in range(k)]
        nonneg = [x for x in col if 0 <= x < 2 ** 32]
        s = rng.choice(nonneg) if nonneg and rng.random() < 0.8 else rng.randint(0, 10)
        cases.append((s, col))
        ctx.count('seed:random:' + style)
    exprs, impls = [], []
    for s, col in cases:
        impl, extra = impl_extend_seed(s, col)
        ctx.case({'rss_seed': s, 'seeds': col})
        ctx.count('seed:needs-search' if s in col else 'seed:kept')
        case = {'kind': 'seed', 'rss_seed': s, 'seeds': col}
        if impl[0] != 'Ok':
            ctx.violation('extend_trial_data_file', 'raises-' + impl[1], 'seed search raised', case=case, impl=impl)
        else:
            if impl[1] in col:
                ctx.violation('extend_trial_data_file', 'seed-reused', f'continues with seed {impl[1]} which occurs in the file',
                              case=case, impl=impl, predicate='chosen seed not in trial_data["seed"]')
            if extra['new_rows'] != [impl[1]] * 2 or extra['service_seed_after'] != impl[1] or extra['old_rows'] != col:
                ctx.violation('extend_trial_data_file', 'rows-inconsistent', 'appended rows / service seed / old rows differ',
                              case=case, impl=[impl, extra])
            if not extra['stream_reseeded']:
                ctx.violation('extend_trial_data_file', 'stream-not-reseeded',
                              'the stream does not start from RandomState(chosen seed)', case=case, impl=[impl, extra])
        impls.append((case, impl))
        exprs.append(f'extend_seed {zlit(s)} {zlist(col)}')
    ctx.sample({'seed_cases': len(cases), 'example': {'rss_seed': cases[130][0], 'seeds': cases[130][1]}})
    if ctx.model_ok:
        vals = common.coq_eval('c08seed', IMPORTS, exprs)
        for (case, impl), v in zip(impls, vals):
            ctx.corr_cases += 1
            m = ['Ok', v[1]] if isinstance(v, tuple) and v[0] == 'Ok' else ['Err', v[1] if isinstance(v, tuple) else v]
            if m != impl:
                ctx.disagree('extend_trial_data_file.seed', case, impl, m)


# ===================================================================== the real trial-file pipeline

def run_trial_file(ctx):
    """extend_trial_data_file -> create_trial_data_file -> Analysis.do_trials -> parallelize -> do_trial, all real (the
    analysis object is the one of build_analysis): the appended rows carry the chosen unused seed, and they are exactly
    what a fresh RandomStateService(chosen seed) handed to do_trials produces - i.e. the re-seeded service is handed down
    unchanged.  ncpu = 2: master rows as before, worker rows carry the worker seed (C08_extend_rows_workers_partial)."""
    import skyllh.core.utils.analysis as ua
    from skyllh.core.random import RandomStateService
    rng = ctx.rng
    combos = [(1, [0, 1], 1), (0, [0, 1, 2, 3, 5], 1), (7, [0, 1], 1), (2, [2, 1, 3], 2), (0, [0], 2)]
    for _ in range(ctx.budget(2, 30)):
        col = [rng.randint(0, 6) for _ in range(rng.randint(1, 6))]
        combos.append((rng.choice(col + [rng.randint(0, 7)]), col, rng.choice([1, 1, 2])))
    exprs, impls = [], []
    for (rss_seed, seeds, ncpu) in combos:
        c = gen_trial_cfg(rng, 1, converging=True)
        c.update(explicit_minimizer_rss=False, alias=False, mean_n_sig=0.0, scripts=[[(1, 1)]])
        case = {'kind': 'trial-file', 'rss_seed': rss_seed, 'seeds': seeds, 'ncpu': ncpu, 'cfg': c}
        ctx.case(case)
        ctx.count(f'trial-file:ncpu:{ncpu}')
        kw = dict(mean_n_sig=0, bkg_kwargs={'poisson': c['bkg_poisson']}, sig_kwargs={'poisson': c['sig_poisson']})
        ntr = 2 * ncpu
        try:
            ana = build_analysis(c)
            (_, _, _, old) = ua.create_trial_data_file(ana=ana, rss=RandomStateService(seed=99), n_trials=len(seeds), ncpu=1, **kw)
            old = np.array(old)
            old['seed'] = seeds
            rss = RandomStateService(seed=rss_seed)
            out = ua.extend_trial_data_file(ana=build_analysis(c), rss=rss, n_trials=ntr, trial_data=old.copy(), ncpu=ncpu, **kw)
        except Exception as ex:
            ctx.violation('extend_trial_data_file', 'pipeline-raises-' + exc_name(ex), str(ex)[:200], case=case)
            continue
        new_seeds = [int(x) for x in out['seed'][len(seeds):]]
        chosen = int(rss.seed)
        want_chosen = rss_seed if rss_seed not in seeds else min(i for i in range(1, len(set(seeds)) + 2) if i not in seeds)
        ref = np.random.RandomState(chosen)
        wseeds = [int(ref.randint(0, 2 ** 32)) for _ in range(ncpu - 1)]
        want_rows = [s for k, s in enumerate([chosen] + wseeds) for _ in range(len(np.array_split(np.arange(ntr), ncpu)[k]))]
        if chosen != want_chosen or chosen in seeds:
            ctx.violation('extend_trial_data_file', 'seed-reused', f'service seed after the call is {chosen}', case=case, impl=chosen)
        if new_seeds != want_rows:
            ctx.violation('extend_trial_data_file', 'row-seeds', 'the appended rows do not carry the seed of the service their process '
                          'worked with (chosen seed / worker seeds)', case=case, impl=new_seeds, model=want_rows,
                          predicate='rows carry the chosen unused seed')
        hit = [s for s in new_seeds if s in seeds]
        if hit:
            ctx.violation('extend_trial_data_file', 'seed-reused', f'appended rows carry seeds {hit} that occur in the file',
                          case=case, impl=new_seeds, predicate='appended seeds not in trial_data["seed"]')
        # the rows are those of a fresh service with the chosen seed handed to do_trials
        try:
            fresh = build_analysis(c).do_trials(rss=RandomStateService(seed=chosen), n=ntr, ncpu=ncpu, mean_n_sig_0=0.0,
                                                minimizer_rss=None, mean_n_bkg_list=None, **kw)
            if np.array(out)[len(seeds):].tobytes() != np.array(fresh).tobytes():
                ctx.violation('create_trial_data_file', 'service-not-handed-down', 'the appended trials differ from do_trials with a '
                              'fresh RandomStateService(chosen seed)', case=case,
                              predicate='create_trial_data_file hands the re-seeded service to do_trials unchanged')
        except Exception as ex:
            ctx.violation('create_trial_data_file', 'pipeline-raises-' + exc_name(ex), str(ex)[:200], case=case)
        table = f'[({zlit(chosen)}, {zlist(wseeds + [0])})]'
        exprs.append(f'extend_rows tm_rng Z (tm_seed {table}) tm_draw (fun v => v) {zlit(rss_seed)} {zlist(seeds)} {ncpu}')
        impls.append((case, [chosen] + wseeds))
    if ctx.model_ok and exprs:
        vals = common.coq_eval('c08tf', IMPORTS, exprs)
        for (case, rows), v in zip(impls, vals):
            ctx.corr_cases += 1
            m = list(v[1]) if isinstance(v, tuple) and v[0] == 'Ok' else ['Err', v]
            if m != rows:
                ctx.disagree('extend_trial_data_file.rows', case, rows, m)


# ===================================================================== extension: random initials of the floating parameters

def _qlit(x):
    from fractions import Fraction
    f = Fraction(x)
    n = f'({f.numerator})' if f.numerator < 0 else str(f.numerator)
    return f'({n} # {f.denominator})'


def initials_cases(ctx):
    rng = ctx.rng
    cases = [{'kind': 'initials', 'bounds': [[0.0, 2.0], [1.0, 9.0], [-3.0, -3.0]], 'fixed_at': [1], 'u': [0.5, 0.25, 1.0]},
             {'kind': 'initials', 'bounds': [[-1.0, 1.0]], 'fixed_at': [], 'u': [0.0]},
             {'kind': 'initials', 'bounds': [[0.0, 4.0], [2.0, 3.0]], 'fixed_at': [0, 2], 'u': [0.999755859375, 0.0]},
             # malformed: the service hands back a wrong number of uniforms
             {'kind': 'initials', 'bounds': [[0.0, 4.0], [2.0, 3.0]], 'fixed_at': [], 'u': [0.5, 0.5, 0.5], 'malformed': True},
             {'kind': 'initials', 'bounds': [[0.0, 4.0], [2.0, 3.0], [1.0, 2.0]], 'fixed_at': [], 'u': [0.5, 0.25], 'malformed': True}]
    for _ in range(ctx.budget(25, 400)):
        n = rng.randint(1, 6)
        bounds = []
        for _ in range(n):
            lo = rng.randint(-64, 64) / 8.0
            hi = lo + rng.choice([0, 1, 3, 16, 100]) / 4.0
            bounds.append([lo, hi])
        u = [rng.choice([0.0, rng.randint(0, 4096) / 4096.0, 4095 / 4096.0]) for _ in range(n)]
        c = {'kind': 'initials', 'bounds': bounds, 'fixed_at': sorted(rng.sample(range(n + 1), rng.randint(0, 2))), 'u': u}
        if n >= 2 and rng.random() < 0.15:
            c['u'] = u + [0.5] if rng.random() < 0.5 else u[:-1] if n >= 3 else u + [0.5]
            c['malformed'] = True
        cases.append(c)
    return cases


def run_initials(ctx, only=None):
    """ParameterSet.generate_random_floating_param_initials (real ParameterSet / Parameter objects, a service returning
    prescribed dyadic uniforms, so that the float arithmetic is exact) vs. `param_initials` over the rationals"""
    from fractions import Fraction
    from skyllh.core.parameters import Parameter, ParameterSet
    exprs, impls = [], []
    for c in (only or initials_cases(ctx)):
        ctx.case(c)
        ctx.count('initials:malformed' if c.get('malformed') else f"initials:n:{len(c['bounds'])}")
        params, k = [], 0
        for i in range(len(c['bounds']) + len(c['fixed_at']) + 1):
            if i in c['fixed_at'] or k >= len(c['bounds']):
                params.append(Parameter(f'fix{i}', 1.5))
            else:
                lo, hi = c['bounds'][k]
                params.append(Parameter(f'p{k}', lo, lo, hi))
                k += 1
        ps = ParameterSet(params)

        class R:
            def uniform(self, low=0.0, high=1.0, size=None):
                R.asked = size
                return np.array(c['u'], dtype=np.float64)

        class S:
            random = R()
        try:
            ri = ps.generate_random_floating_param_initials(S())
            impl = ['Ok'] + [float(x) for x in ri]
        except Exception as ex:
            impl = ['Err', exc_name(ex)]
        if not c.get('malformed'):
            want = [Fraction(lo) + Fraction(x) * (Fraction(hi) - Fraction(lo)) for (lo, hi), x in zip(c['bounds'], c['u'])]
            if impl[0] != 'Ok' or R.asked != len(c['bounds']) or len(impl) - 1 != len(c['bounds']):
                ctx.violation('ParameterSet.generate_random_floating_param_initials', 'wrong-shape',
                              f'asked for {getattr(R, "asked", None)} uniforms / returned {impl[:3]} for {len(c["bounds"])} floating parameters',
                              case=c, impl=impl, predicate='one initial per floating parameter')
            elif any(not (lo <= v <= hi) for (lo, hi), v in zip(c['bounds'], impl[1:])) or \
                    [Fraction(v) for v in impl[1:]] != want:
                ctx.violation('ParameterSet.generate_random_floating_param_initials', 'initial-out-of-bounds-or-wrong',
                              'an initial is outside its bounds or differs from lower + u * (upper - lower)', case=c, impl=impl,
                              model=[float(x) for x in want], predicate='lower <= initial <= upper, initial = lower + u*(upper-lower)')
        bl = '[' + '; '.join(f'({_qlit(lo)}, {_qlit(hi)})' for lo, hi in c['bounds']) + ']'
        ul = '[' + '; '.join(_qlit(x) for x in c['u']) + ']'
        exprs.append(f'match param_initials QNum {bl}%Q {ul}%Q with Ok r => Ok (map (fun q => (Qnum (Qred q), Zpos (Qden (Qred q)))) r) '
                     f'| Err e => Err e end')
        impls.append((c, impl))
    if ctx.model_ok and exprs:
        vals = common.coq_eval('c08ini', IMPORTS + 'From Coq Require Import QArith.\n', exprs)
        for (c, impl), v in zip(impls, vals):
            ctx.corr_cases += 1
            if isinstance(v, tuple) and v[0] == 'Ok':
                m = ['Ok'] + [Fraction(a, b) for a, b in v[1]]
                imp = ['Ok'] + [Fraction(x) for x in impl[1:]] if impl[0] == 'Ok' else impl
            else:
                m, imp = ['Err', v[1] if isinstance(v, tuple) else v], impl
            if m != imp:
                ctx.disagree('ParameterSet.generate_random_floating_param_initials', c, impl, [str(x) for x in m])


# ===================================================================== caller-owned keyword dictionaries

def run_kwargs_reuse(ctx):
    """round 4 (seeded C08-7): the caller's sig_kwargs / bkg_kwargs dictionaries are re-used for generations with
    DIFFERENT means; every generation must equal the one with a fresh dictionary (same seed), the number of injected
    events must follow the mean of THAT call, and create_trial_data_file over several means must report n_sig = mean.
    Deterministic corpus (no randomness in the case shape)."""
    import skyllh.core.utils.analysis as ua
    from skyllh.core.random import RandomStateService
    base = {'kind': 'trial', 'seed': 11, 'ntrials': 1, 'maxrep': 3, 'nfloat': 2, 'scripts': [[(1, 1)]], 'bkg_means': [2.0, 5.0],
            'bkg_poisson': False, 'scramble': True, 'mean_n_sig': 0.0, 'sig_poisson': False, 'poisson_answers': [],
            'explicit_minimizer_rss': False, 'alias': False}
    exprs, impls = [], []
    for means in ([1, 3], [3, 1], [2, 0, 4], [5, 5, 2], [1, 2, 3, 4]):
        for poisson in (False, True):
            case = {'kind': 'kwargs-reuse', 'means': means, 'sig_poisson': poisson}
            ctx.case(case)
            ctx.count('kwargs-reuse:generate_pseudo_data')
            ana = build_analysis(base)
            sig_kwargs = {'poisson': poisson}
            bkg_kwargs = {'poisson': False}
            got, want, used = [], [], []
            for j, m in enumerate(means):
                (n_sig, n_ev, evs) = ana.generate_pseudo_data(rss=RandomStateService(seed=100 + j), mean_n_sig=float(m),
                                                              bkg_kwargs=bkg_kwargs, sig_kwargs=sig_kwargs)
                got.append(_b((int(n_sig), [int(x) for x in n_ev], evs)))
                used.append(sig_kwargs.get('mean'))
                (n_sig2, n_ev2, evs2) = build_analysis(base).generate_pseudo_data(
                    rss=RandomStateService(seed=100 + j), mean_n_sig=float(m), bkg_kwargs={'poisson': False}, sig_kwargs={'poisson': poisson})
                want.append(_b((int(n_sig2), [int(x) for x in n_ev2], evs2)))
                if not poisson and int(n_sig) != m:
                    ctx.violation('Analysis.generate_signal_events', 'stale-mean-in-caller-kwargs',
                                  f'generation #{j} with mean_n_sig={m} injected {int(n_sig)} signal events (the dictionary was used '
                                  f'with {means[:j]} before)', case=case, impl=int(n_sig), model=m,
                                  predicate='n_sig == mean_n_sig for poisson=False')
            if got != want:
                ctx.violation('Analysis.generate_pseudo_data', 'history-dependent', 'generations with a re-used sig_kwargs / bkg_kwargs '
                              f'dictionary (means {means}) differ from those with a fresh dictionary and the same seed', case=case,
                              predicate='result is a function of (seed, arguments of the call)')
            if set(bkg_kwargs) != {'poisson'}:
                ctx.count('kwargs-reuse:bkg-kwargs-written')
            exprs.append(f'sig_means_used None {zlist(means)}')
            impls.append((case, [None if m == 0 else m for m in means], used))
    # the same through create_trial_data_file(mean_n_sig=[a, b, step]) with one caller-owned dictionary
    for (lo, hi, step) in ((1, 3, 1), (2, 6, 2)):
        case = {'kind': 'kwargs-reuse', 'means': [lo, hi, step], 'via': 'create_trial_data_file'}
        ctx.case(case)
        ctx.count('kwargs-reuse:create_trial_data_file')
        try:
            (_, _, _, td) = ua.create_trial_data_file(ana=build_analysis(base), rss=RandomStateService(seed=4), n_trials=2,
                                                      mean_n_sig=[lo, hi, step], sig_kwargs={'poisson': False},
                                                      bkg_kwargs={'poisson': False}, ncpu=1)
            rows = [(float(a), int(b)) for a, b in zip(td['mean_n_sig'], td['n_sig'])]
            if any(int(a) != b for a, b in rows):
                ctx.violation('Analysis.generate_signal_events', 'stale-mean-in-caller-kwargs',
                              f'trial file rows (mean_n_sig, n_sig) = {rows}: events were not injected with the mean of the row',
                              case=case, impl=rows, predicate='n_sig == mean_n_sig for poisson=False')
        except Exception as ex:
            ctx.violation('create_trial_data_file', 'pipeline-raises-' + exc_name(ex), str(ex)[:200], case=case)
    if ctx.model_ok and exprs:
        vals = common.coq_eval('c08kw', IMPORTS, exprs)
        for (case, want_used, used), v in zip(impls, vals):
            ctx.corr_cases += 1
            m = [None if x == 'None' else x[1] for x in v]
            # the model lists the mean handed to the generator per call; the code's dictionary entry after each call
            # is the last non-zero mean
            last, code = None, []
            for w, u in zip(want_used, used):
                code.append(None if w is None else (int(u) if u is not None else None))
            if m != code:
                ctx.disagree('Analysis.generate_signal_events.sig_kwargs', case, code, m)


# ===================================================================== workers

def _worker_task(rss, tag):
    return (tag, os.getpid(), rss.seed, int(rss.random.randint(0, 1000003)))


def run_workers(ctx):
    from skyllh.core.multiproc import parallelize
    from skyllh.core.random import RandomStateService
    combos = [(s, n) for s in (0, 1, 7) for n in (1, 2, 3)]
    if ctx.thorough():
        combos += [(s, n) for s in (2, 42, 2 ** 31, 2 ** 32 - 1, 123456789) for n in (1, 2, 3, 4, 5)]
    exprs, impls = [], []
    for seed, ncpu in combos:
        ntasks = ncpu * 2
        rss = RandomStateService(seed=seed)
        try:
            res = parallelize(_worker_task, [((), {'tag': i}) for i in range(ntasks)], ncpu, rss=rss)
        except Exception as ex:
            ctx.violation('parallelize', 'raises-' + exc_name(ex), str(ex)[:200], case={'seed': seed, 'ncpu': ncpu})
            continue
        case = {'kind': 'workers', 'seed': seed, 'ncpu': ncpu}
        ctx.case(case)
        ctx.count(f'workers:ncpu:{ncpu}')
        if [r[0] for r in res] != list(range(ntasks)):
            ctx.violation('parallelize', 'order', 'results not in task order', case=case, impl=res)
            continue
        # tasks are split by np.array_split: 2 per process here
        per_pid = [res[2 * k:2 * k + 2] for k in range(ncpu)]
        seeds = [pp[0][2] for pp in per_pid]
        # independent oracle: the parent's own stream
        ref = np.random.RandomState(seed)
        want = [int(ref.randint(0, 2 ** 32)) for _ in range(ncpu - 1)]
        master_next = [int(ref.randint(0, 1000003)) for _ in range(2)]
        if seeds[0] != seed or seeds[1:] != want:
            ctx.violation('parallelize', 'worker-seeds', f'worker seeds {seeds[1:]} differ from the first {ncpu - 1} '
                          f'randint(0,2**32) draws {want} of the parent', case=case, impl=seeds,
                          predicate='worker seeds = f(parent seed, ncpu)')
        if [r[3] for r in per_pid[0]] != master_next:
            ctx.violation('parallelize', 'master-stream', 'the master does not continue the parent stream after the seed draws',
                          case=case, impl=[r[3] for r in per_pid[0]], model=master_next)
        for k in range(1, ncpu):
            wr = np.random.RandomState(seeds[k])
            if [r[3] for r in per_pid[k]] != [int(wr.randint(0, 1000003)) for _ in range(2)]:
                ctx.violation('parallelize', 'worker-stream', f'worker {k} does not draw from RandomState(seed_k)', case=case)
        table = f'[({zlit(seed)}, {zlist(want + [0, 0])})]'
        exprs.append(f'map (fun pid => match proc_rss tm_rng Z (tm_seed {table}) tm_draw (fun v => v) '
                     f'(rss_new tm_rng (tm_seed {table}) {zlit(seed)}) {ncpu} pid with Ok r => Ok (tm_log r) | Err e => Err e end) '
                     f'{zlist(range(ncpu))}')
        impls.append((case, seeds))
    if ctx.model_ok and exprs:
        vals = common.coq_eval('c08wk', IMPORTS, exprs)
        for (case, seeds), v in zip(impls, vals):
            ctx.corr_cases += 1
            try:
                mseeds = [x[1][0] for x in v]
                mlog0 = v[0][1][1]
            except Exception:
                mseeds, mlog0 = ['unparsed', repr(v)[:300]], None
            nreq = case['ncpu'] - 1
            want_log = [('RRandint', 0, 2 ** 32)] * nreq
            if mseeds != seeds or [tuple(x) for x in (mlog0 or [])] != want_log:
                ctx.disagree('parallelize.rss_list', case, seeds, [mseeds, mlog0])


# ===================================================================== trials: request traces

class Recorder:
    """installs a request-recording subclass as np.random.RandomState"""
    def __init__(self, poisson_table=None):
        self.log = []
        self.n = 0
        self.poisson_table = poisson_table    # {seed: [values]} -> prescribed poisson answers
        self.orig = np.random.RandomState
        rec = self

        class RecRS(self.orig):
            def __init__(self, seed=None):
                super().__init__(seed)
                self.sid = rec.n
                rec.n += 1
                self._pt = list((rec.poisson_table or {}).get(seed, []))
                rec.log.append((self.sid, 'new', seed))

            def seed(self, seed=None):
                if hasattr(self, 'sid'):
                    rec.log.append((self.sid, 'seed', seed))
                    self._pt = list((rec.poisson_table or {}).get(seed, []))
                return super().seed(seed)

            def _req(self, entry, real_call):
                """log one request, consume one table entry; nested calls (random -> random_sample) count once"""
                if getattr(self, '_nested', False):
                    return real_call(), None
                self._nested = True
                try:
                    rec.log.append((self.sid,) + entry)
                    ans = self._pt.pop(0) if (rec.poisson_table is not None and self._pt) else None
                    return real_call(), ans
                finally:
                    self._nested = False

            def random(self, size=None):
                return self._req(('random', None if size is None else int(size)), lambda: super(RecRS, self).random(size))[0]

            def random_sample(self, size=None):
                return self._req(('random', None if size is None else int(size)),
                                 lambda: super(RecRS, self).random_sample(size))[0]

            def uniform(self, low=0.0, high=1.0, size=None):
                return self._req(('uniform', None if size is None else int(size)),
                                 lambda: super(RecRS, self).uniform(low, high, size))[0]

            def poisson(self, lam=1.0, size=None):
                v, ans = self._req(('poisson', float(lam)), lambda: super(RecRS, self).poisson(lam, size))
                return v if ans is None else ans

            def randint(self, low, high=None, size=None, dtype=int):
                return self._req(('randint', int(low), None if high is None else int(high)),
                                 lambda: super(RecRS, self).randint(low, high, size, dtype))[0]

            def __getattribute__(self, name):
                if name in ('choice', 'normal', 'exponential', 'shuffle', 'permutation', 'rand', 'randn', 'binomial',
                            'standard_normal', 'bytes', 'multinomial', 'gamma', 'beta', 'integers', 'sample', 'ranf'):
                    rec.log.append((object.__getattribute__(self, 'sid'), 'other:' + name))
                return super().__getattribute__(name)
        self.cls = RecRS

    def __enter__(self):
        np.random.RandomState = self.cls
        return self

    def __exit__(self, *a):
        np.random.RandomState = self.orig


def build_analysis(cfgd):
    """a LLHRatioAnalysis whose randomised parts are the real skyllh code:
    do_trial(s), generate_pseudo_data, generate_background_events ->
    MCDataSamplingBkgGenMethod.generate_events (RandomChoice, DataScrambler,
    UniformRAScramblingMethod), generate_signal_events, LLHRatio.maximize,
    Minimizer.minimize, ParameterSet.generate_random_floating_param_initials.
    Stubs only where an abstract base has to be filled in (PDFs, the minimiser
    implementation, the signal generator's event construction)."""
    from skyllh.core.config import Config
    from skyllh.core.random import RandomChoice
    from skyllh.core.minimizer import Minimizer, MinimizerImpl
    from skyllh.core.parameters import Parameter, ParameterSet
    from skyllh.core.llhratio import LLHRatio
    from skyllh.core.analysis import LLHRatioAnalysis
    from skyllh.core.background_generation import MCDataSamplingBkgGenMethod
    from skyllh.core.scrambling import DataScrambler, UniformRAScramblingMethod
    from skyllh.core.dataset import DatasetData
    from skyllh.core.storage import DataFieldRecordArray as DFRA
    cfg = Config()

    class Impl(MinimizerImpl):
        """status of call k of the current trial = script[trial][k]"""
        def __init__(self, scripts):
            super().__init__(cfg=cfg)
            self.scripts = scripts
            self.trial = -1
            self.k = 0
            self.initials = []

        def next_trial(self):
            self.trial += 1
            self.k = 0

        def minimize(self, initials, bounds, func, func_args=None, **kwargs):
            sc = self.scripts[min(self.trial, len(self.scripts) - 1)]
            conv, rep = sc[min(self.k, len(sc) - 1)]
            self.k += 1
            self.initials.append([float(x) for x in initials])
            return (np.array(initials, dtype=float), float(np.sum(initials)), {'conv': bool(conv), 'rep': bool(rep)})

        def get_niter(self, status):
            return 1

        def has_converged(self, status):
            return status['conv']

        def is_repeatable(self, status):
            return status['rep']

    class PMM:
        def __init__(self, ps):
            self.global_paramset = ps

        def create_global_params_dict(self, gflp_values):
            return {f'x{i}': float(v) for i, v in enumerate(gflp_values)}

    class LLH(LLHRatio):
        def evaluate(self, *a, **k):
            raise RuntimeError('not used')

        def initialize_for_new_trial(self, *a, **k):
            pass
    LLH.__abstractmethods__ = frozenset()

    class DS:
        def __init__(self, name):
            self.name = name

    class BkgGen:
        """BackgroundGenerator stand-in: loops over the datasets like the real one"""
        def __init__(self, methods, dsl, datal):
            self.methods, self.dsl, self.datal = methods, dsl, datal

        def generate_background_events(self, rss, mean_n_bkg_list=None, tl=None, **kwargs):
            ns, evs = [], []
            for m, ds, data, mean in zip(self.methods, self.dsl, self.datal, cfgd['bkg_means']):
                (n, ev) = m.generate_events(rss=rss, dataset=ds, data=data, mean=mean, tl=tl, **kwargs)
                ns.append(int(n))
                evs.append(ev)
            return (ns, evs)

    class SigGen:
        """signal generator stand-in: poisson(mean) then one weighted choice, as
        MCMultiDatasetSignalGenerator.generate_signal_events starts"""
        def __init__(self, rc):
            self.rc = rc
            self.last = None

        def generate_signal_events(self, rss, mean, poisson=True, **kw):
            n = int(rss.random.poisson(float(mean))) if poisson else int(mean)
            self.last = self.rc(rss=rss, size=n)
            return (n, {})

    class Ana(LLHRatioAnalysis):
        def initialize_trial(self, events_list, n_events_list=None):
            self._minimizer_impl.next_trial()
            self._acc = float(sum(np.sum(e['ra']) + np.sum(e['log_energy']) for e in events_list))
            if self._sig_generator.last is not None:
                self._acc += float(np.sum(self._sig_generator.last))

        def calculate_test_statistic(self, log_lambda, fitparam_values, **k):
            return float(self._acc) + float(log_lambda)

        def construct_llhratio(self, *a, **k):
            pass
    Ana.__abstractmethods__ = frozenset()

    nfloat = cfgd['nfloat']
    params = [Parameter(f'p{i}', 1.0 + i, 0.0, 4.0 + i) for i in range(nfloat)] + [Parameter('fixed', 5.0)]
    ps = ParameterSet(params)
    impl = Impl(cfgd['scripts'])
    mini = Minimizer(impl, max_repetitions=cfgd['maxrep'])
    pmm = PMM(ps)
    llh = LLH.__new__(LLH)
    llh._cfg, llh._pmm, llh._minimizer = cfg, pmm, mini
    ana = Ana.__new__(Ana)
    ana._cfg, ana._llhratio, ana._pmm, ana._minimizer_impl = cfg, llh, pmm, impl
    nds = len(cfgd['bkg_means'])
    dsl, datal, methods = [], [], []
    for d in range(nds):
        n = 12 + 5 * d
        mc = DFRA(np.array([(0.1 * i, 0.01 * i - 0.05, 2.0 + 0.25 * i, float((i * 7 + d) % 5)) for i in range(n)],
                           dtype=[('ra', np.float64), ('dec', np.float64), ('log_energy', np.float64), ('mcweight', np.float64)]))
        exp = DFRA(np.array([(0.1, 0.01, 2.0)], dtype=[('ra', np.float64), ('dec', np.float64), ('log_energy', np.float64)]))
        datal.append(DatasetData(data_exp=exp, data_mc=mc, livetime=1.0))
        dsl.append(DS(f'ds{d}'))

        def prob(dataset, data, events):
            w = np.array(events['mcweight'], dtype=np.float64)
            return w / w.sum()
        methods.append(MCDataSamplingBkgGenMethod(
            cfg=cfg, get_event_prob_func=prob, get_mean_func=None,
            data_scrambler=DataScrambler(UniformRAScramblingMethod()) if cfgd['scramble'] else None,
            keep_mc_data_fields=['mcweight']))
    ana._dataset_list = dsl
    ana._data_list = datal
    ana._bkg_generator = BkgGen(methods, dsl, datal)
    ana._sig_generator = SigGen(RandomChoice(np.arange(9) * 1.5, np.array([0, .125, 0, .5, .125, 0, .125, .125, 0])))
    return ana


def gen_trial_cfg(rng, ntrials, converging=False):
    maxrep = rng.choice([0, 1, 2, 3, 5, 10])
    scripts = []
    for _ in range(ntrials):
        kind = rng.choice(['first', 'first', 'restarts', 'restarts', 'never', 'unrepeatable'])
        if converging:
            kind = rng.choice(['first', 'restarts', 'restarts']) if maxrep > 0 else 'first'
        if kind == 'first':
            sc = [(1, 1)]
        elif kind == 'restarts':
            k = rng.randint(1, maxrep) if converging else rng.randint(1, 6)
            sc = [(0, 1)] * k + [(1, rng.randint(0, 1))]
        elif kind == 'never':
            sc = [(0, 1)]
        else:
            k = rng.randint(0, 3)
            sc = [(0, 1)] * k + [(0, 0)]
        scripts.append(sc)
    nds = rng.choice([1, 2, 3])
    c = {'kind': 'trial', 'seed': rng.choice([0, 0, 1, 5, 77, 2 ** 31 + 3, 123456]), 'ntrials': ntrials,
            'maxrep': maxrep, 'nfloat': rng.choice([1, 2, 3]), 'scripts': scripts,
            'bkg_means': [float(rng.choice([0.5, 2.0, 5.0, 9.5])) for _ in range(nds)],
            'bkg_poisson': rng.random() < 0.7, 'scramble': rng.random() < 0.7,
            'mean_n_sig': float(rng.choice([0, 0, 3, 7])), 'sig_poisson': rng.random() < 0.7,
            'poisson_answers': [rng.randint(0, 12) for _ in range(4 * ntrials * 4)],
            'explicit_minimizer_rss': rng.random() < 0.25, 'alias': rng.random() < 0.12}
    if c['alias']:
        c['explicit_minimizer_rss'] = False
    return c


def run_trials_impl(cfgd, recorder_table=True):
    """returns (result or error, per-stream request logs, record bytes)"""
    from skyllh.core.random import RandomStateService
    table = {cfgd['seed']: list(cfgd['poisson_answers'])} if recorder_table else None
    with Recorder(table) as rec:
        ana = build_analysis(cfgd)
        rss = RandomStateService(seed=cfgd['seed'])
        mrss = RandomStateService(seed=cfgd['seed'] + 1000) if cfgd['explicit_minimizer_rss'] else None
        if cfgd.get('alias'):
            mrss = rss          # the caller hands the same service for both roles
        kw = dict(mean_n_sig=cfgd['mean_n_sig'], bkg_kwargs={'poisson': cfgd['bkg_poisson']},
                  sig_kwargs={'poisson': cfgd['sig_poisson']}, minimizer_rss=mrss)
        outs = []
        for t in range(cfgd['ntrials']):
            rec.log.append(('T',))
            try:
                r = ana.do_trial(rss=rss, **kw)
                outs.append(['Ok', r.tobytes().hex(), int(r['seed'][0])])
            except Exception as ex:
                outs.append(['Err', exc_name(ex)])
        log = list(rec.log)
    return outs, log, ana


def req_to_coq(r):
    if r[1] == 'random':
        return f'RRandom {zlit(r[2])}'
    if r[1] == 'uniform':
        return f'RUniform {zlit(r[2])}'
    if r[1] == 'poisson':
        return 'RPoisson 0'
    if r[1] == 'randint':
        return f'RRandint {zlit(r[2])} {zlit(r[3])}'
    return 'ROther 0'


def canon_reqs(reqs):
    out = []
    for r in reqs:
        if isinstance(r, tuple):
            out.append((r[0],) + tuple(r[1:]) if r[0] != 'RPoisson' else ('RPoisson',))
        else:
            out.append((r,))
    return out


def trial_model_expr(cfgd):
    """Gallina term: the n trials on the logging machine.  bkg = bkg_mc per
    dataset, sig = poisson + choice (skipped when mean_n_sig == 0)."""
    table = f'[({zlit(cfgd["seed"])}, {zlist(cfgd["poisson_answers"])})]'
    mach = f'tm_rng Z'
    bkg_steps = ''
    for i, mean in enumerate(cfgd['bkg_means']):
        nfix = int(np.round(mean, 0))
        bkg_steps += (f"let '(n{i}, r) := bkg_mc tm_rng Z tm_draw (fun v => v) {str(cfgd['bkg_poisson']).lower()} "
                      f"{nfix} {str(cfgd['scramble']).lower()} r in ")
    bkg = f"(fun r : rss tm_rng => {bkg_steps} ([{'; '.join(f'n{i}' for i in range(len(cfgd['bkg_means'])))}], r))"
    if cfgd['mean_n_sig'] == 0:
        sig = '(fun (b : list Z) (r : rss tm_rng) => (b, r))'
    elif cfgd['sig_poisson']:
        sig = ("(fun (b : list Z) (r : rss tm_rng) => let '(n, r1) := rss_draw tm_rng Z tm_draw r (RPoisson 1) in "
               "let '(_, r2) := rc_draw tm_rng Z tm_draw r1 n in (n :: b, r2))")
    else:
        sig = (f"(fun (b : list Z) (r : rss tm_rng) => let '(_, r2) := rc_draw tm_rng Z tm_draw r {int(cfgd['mean_n_sig'])} in "
               f"({int(cfgd['mean_n_sig'])} :: b, r2))")
    impls = []
    for sc in cfgd['scripts']:
        lst = '[' + '; '.join(f'({str(bool(c)).lower()}, {str(bool(r)).lower()})' for c, r in sc) + ']'
        last = f'({str(bool(sc[-1][0])).lower()}, {str(bool(sc[-1][1])).lower()})'
        impls.append(f'(fun (k : nat) (_ : option Z) => nth k {lst} {last})')
    mr = (f'(Some (rss_new tm_rng (tm_seed {table}) {zlit(cfgd["seed"] + 1000)}))' if cfgd['explicit_minimizer_rss'] else 'None')
    if cfgd.get('alias'):
        return (f"(fix go (impls : list (nat -> option Z -> bool * bool)) (r : rss tm_rng) "
                f": list (res (Z * res Z * (Z * list req) * (Z * list req))) := "
                f"match impls with [] => [] | impl :: rest => "
                f"match do_trial_aliased {mach} tm_draw impl (list Z) (list Z) {bkg} {sig} r {cfgd['maxrep']} {cfgd['nfloat']} with "
                f"| Ok (_, sd, fit, r') => Ok (sd, fit, tm_log r', (0, [])) :: "
                f"go rest (Build_rss tm_rng (rs_seed r') (fst (rs_st r'), [])) "
                f"| Err e => [Err e] end end) [{'; '.join(impls)}] (rss_new tm_rng (tm_seed {table}) {zlit(cfgd['seed'])})")
    # trial by trial so that the minimiser service of every trial is observable
    return (f"(fix go (impls : list (nat -> option Z -> bool * bool)) (r : rss tm_rng) (mr : option (rss tm_rng)) "
            f": list (res (Z * res Z * (Z * list req) * (Z * list req))) := "
            f"match impls with [] => [] | impl :: rest => "
            f"match do_trial {mach} (tm_seed {table}) tm_draw impl (list Z) (list Z) {bkg} {sig} r mr {cfgd['maxrep']} {cfgd['nfloat']} with "
            f"| Ok (_, sd, fit, r', m') => Ok (sd, fit, tm_log r', tm_log m') :: "
            f"go rest (Build_rss tm_rng (rs_seed r') (fst (rs_st r'), [])) (match mr with Some _ => Some (Build_rss tm_rng (rs_seed m') (fst (rs_st m'), [])) | None => None end) "
            f"| Err e => [Err e] end end) [{'; '.join(impls)}] (rss_new tm_rng (tm_seed {table}) {zlit(cfgd['seed'])}) {mr}")



def split_trial_logs(cfgd, log):
    """per trial: requests on the data service, requests on the minimiser service, seed of the minimiser service.
    None when a request went to any other service or a data request follows a minimiser request."""
    sid_seed = {e[0]: e[2] for e in log if len(e) > 1 and e[1] == 'new'}
    if cfgd.get('alias'):
        trials = []
        for e in log:
            if e == ('T',):
                trials.append({'data': [], 'min': [], 'min_sid': None, 'min_seed': 0})
            elif e[1] == 'new':
                if e[0] != 0 or trials:
                    return None
            elif e[0] != 0 or not trials:
                return None
            else:
                trials[-1]['data'].append(e)
        return trials
    data_sid = 0
    explicit_sid = 1 if cfgd['explicit_minimizer_rss'] else None
    trials, cur = [], None
    for e in log:
        if e == ('T',):
            cur = {'data': [], 'min': [], 'min_sid': explicit_sid, 'min_seed': sid_seed.get(explicit_sid)}
            trials.append(cur)
            continue
        if cur is None:
            if e[1] == 'new' and e[0] in (data_sid, explicit_sid):
                continue
            return None
        if e[1] == 'new':
            if explicit_sid is not None or cur['min_sid'] is not None:
                return None
            cur['min_sid'], cur['min_seed'] = e[0], e[2]
        elif e[0] == data_sid:
            if cur['min']:
                return None
            cur['data'].append(e)
        elif e[0] == cur['min_sid']:
            cur['min'].append(e)
        else:
            return None
    return trials


def expected_data_requests(c):
    """the requests one trial after the other makes on `rss`, read off the documentation of the generators:
    per dataset [poisson] random(n) [uniform(n)], then for the signal [poisson] random(n).  Every request consumes one
    prescribed answer; only poisson uses it."""
    ans = list(c['poisson_answers'])

    def pop():
        return ans.pop(0) if ans else None
    trials = []
    for _ in range(c['ntrials']):
        reqs = []
        for mean in c['bkg_means']:
            if c['bkg_poisson']:
                reqs.append(['poisson'])
                n = pop()
            else:
                n = int(np.round(mean, 0))
            if n is None:
                return None
            reqs.append(['random', n])
            pop()
            if c['scramble']:
                reqs.append(['uniform', n])
                pop()
        if c['mean_n_sig'] != 0:
            if c['sig_poisson']:
                reqs.append(['poisson'])
                n = pop()
            else:
                n = int(c['mean_n_sig'])
            if n is None:
                return None
            reqs.append(['random', n])
            pop()
        trials.append(reqs)
    return trials


def run_trials(ctx, only=None):
    rng = ctx.rng
    n_cfg = ctx.budget(40, 1500) if only is None else 0
    cfgs = list(only or [])
    # corpus: three restarts, default minimiser service; no restarts; limit 0
    base = {'kind': 'trial', 'seed': 5, 'ntrials': 2, 'maxrep': 10, 'nfloat': 2,
            'scripts': [[(0, 1), (0, 1), (0, 1), (1, 1)], [(1, 1)]], 'bkg_means': [5.0, 2.0], 'bkg_poisson': True,
            'scramble': True, 'mean_n_sig': 3.0, 'sig_poisson': True, 'poisson_answers': [4, 0, 2, 7, 1, 3, 5, 2, 2, 2, 6, 1, 0, 3, 8, 2, 5, 1, 1, 4, 9, 0, 2, 3, 3, 7, 1, 2, 0, 5, 4, 4],
            'explicit_minimizer_rss': False}
    if only is None:
        cfgs.append(base)
        cfgs.append(dict(base, seed=0, maxrep=0, scripts=[[(0, 1)], [(0, 1)]]))
        cfgs.append(dict(base, explicit_minimizer_rss=True, scripts=[[(0, 1), (1, 1)], [(0, 1), (0, 1), (1, 0)]]))
        cfgs.append(dict(base, alias=True, scripts=[[(0, 1), (0, 1), (1, 1)], [(1, 1)]]))
        cfgs.append(dict(base, alias=True, seed=0, nfloat=3, scripts=[[(1, 1)], [(0, 1), (1, 1)]]))
    while len(cfgs) < n_cfg:
        cfgs.append(gen_trial_cfg(rng, rng.choice([1, 2, 3])))
    exprs, impls = [], []
    for c in cfgs:
        try:
            outs, log, ana = run_trials_impl(c)
        except Exception as ex:
            ctx.violation('Analysis.do_trial', 'harness-setup-' + exc_name(ex), str(ex)[:300], case=c)
            continue
        ctx.case({k: v for k, v in c.items()})
        trials = split_trial_logs(c, log)
        restarts = sum(max(0, len(sc) - 1) for sc in c['scripts'])
        ctx.count('trial:with-restarts' if any(len(sc) > 1 for sc in c['scripts']) and c['maxrep'] > 0 else 'trial:no-restarts')
        ctx.count('trial:aliased-minimizer-rss' if c.get('alias') else 'trial:explicit-minimizer-rss' if c['explicit_minimizer_rss'] else 'trial:default-minimizer-rss')
        if trials is None or len(trials) != c['ntrials']:
            ctx.violation('Analysis.do_trial', 'unexpected-stream', 'requests on a service that is neither rss nor the '
                          "trial's minimiser service", case=c, impl=log[:60])
            continue
        # predicate 1: the data service never receives a minimiser request; its requests do not depend on the scripts
        for t, tr in enumerate(trials if not c.get('alias') else []):
            if not c['explicit_minimizer_rss'] and tr['min_seed'] != c['seed']:
                ctx.violation('Analysis.do_trial', 'minimizer-seed', f"minimiser service seeded with {tr['min_seed']}, not rss.seed",
                              case=c, impl=tr['min_seed'])
            if any(e[1] != 'uniform' or e[2] != c['nfloat'] for e in tr['min']):
                ctx.violation('Minimizer.minimize', 'minimizer-requests', 'restart requests are not uniform(size=n_floating)',
                              case=c, impl=tr['min'])
            if outs[t][0] == 'Ok' and outs[t][2] != c['seed']:
                ctx.violation('Analysis.do_trial', 'recorded-seed', 'recorded seed differs from rss.seed', case=c, impl=outs[t])
        want = expected_data_requests(c) if not c.get('alias') else None
        if want is not None and [[req_canon(e) for e in tr['data']] for tr in trials] != want:
            ctx.violation('Analysis.generate_pseudo_data', 'data-request-order', 'requests on rss differ from the documented order '
                          '[poisson] choice [scramble] per dataset, then [poisson] choice for the signal', case=c,
                          impl=[[req_canon(e) for e in tr['data']] for tr in trials], model=want)
        impls.append((c, outs, trials))
        exprs.append(trial_model_expr(c))
    # predicate 2 (non-interference, observed): same configuration, different minimiser scripts -> identical data requests
    for c in [x for x in cfgs if not x.get('alias')][:ctx.budget(10, 120)]:
        c2 = dict(c, scripts=[[(1, 1)] for _ in c['scripts']])
        c3 = dict(c, scripts=[[(0, 1)] * 4 + [(1, 1)] for _ in c['scripts']], maxrep=max(c['maxrep'], 7))
        logs = []
        for cc in (c, c2, c3):
            outs, log, ana = run_trials_impl(cc, recorder_table=False)
            tr = split_trial_logs(cc, log)
            logs.append(([t['data'] for t in tr] if tr else None, [a[-1] for a in ana._minimizer_impl.initials[:1]]))
        if not (logs[0][0] == logs[1][0] == logs[2][0]):
            ctx.violation('Analysis.do_trial', 'interference', 'the requests on the data service depend on the minimiser restarts',
                          case=c, impl=[l[0] for l in logs], predicate='data stream independent of restarts')
        ctx.count('trial:noninterference-triples')
    ctx.sample({'trial_cfg': {k: cfgs[0][k] for k in ('seed', 'maxrep', 'nfloat', 'scripts', 'bkg_means', 'mean_n_sig')}})
    if ctx.model_ok and exprs:
        vals = common.coq_eval('c08tr', IMPORTS, exprs)
        for (c, outs, trials), v in zip(impls, vals):
            ctx.corr_cases += 1
            imp, mod = [], []
            for t, tr in enumerate(trials):
                fit_ok = outs[t][0] == 'Ok'
                imp.append([outs[t][0] if fit_ok else 'Err:' + outs[t][1], c['seed'],
                            [req_canon(e) for e in tr['data']], tr['min_seed'], [req_canon(e) for e in tr['min']]])
            try:
                for x in v:
                    if x[0] != 'Ok':
                        mod.append(['ModelErr', x])
                        continue
                    (sd, fit, dlog, mlog) = x[1]
                    mod.append(['Ok' if fit[0] == 'Ok' else 'Err:' + fit[1], sd, [coq_req_canon(q) for q in dlog[1]],
                                mlog[0], [coq_req_canon(q) for q in mlog[1]]])
            except Exception as ex:
                mod = ['unparsed', repr(v)[:300], str(ex)]
            if imp != mod:
                ctx.disagree('do_trial.request-trace', c, imp, mod)


def req_canon(e):
    if e[1] == 'poisson':
        return ['poisson']
    if e[1] == 'randint':
        return ['randint', e[2], e[3]]
    return [e[1], e[2]] if len(e) > 2 else [e[1]]


def coq_req_canon(q):
    if isinstance(q, tuple):
        name = {'RRandom': 'random', 'RUniform': 'uniform', 'RPoisson': 'poisson', 'RRandint': 'randint', 'ROther': 'other'}[q[0]]
        if name == 'poisson':
            return ['poisson']
        return [name] + list(q[1:])
    return [q]


# ===================================================================== equal seeds, equal bytes

def run_determinism(ctx):
    from skyllh.core.random import RandomStateService
    rng = ctx.rng
    n = ctx.budget(12, 300)
    for i in range(n):
        c = gen_trial_cfg(rng, rng.choice([2, 3, 4]), converging=(i % 5 != 4))
        c['explicit_minimizer_rss'] = False
        c['alias'] = False
        ncpu = 2 if (i % 4 == 0 and i % 5 != 4) else 1
        ctx.case({'det': c, 'ncpu': ncpu})
        ctx.count(f'determinism:ncpu:{ncpu}')

        def one(prior):
            ana = build_analysis(c)
            kw = dict(mean_n_sig=c['mean_n_sig'], bkg_kwargs={'poisson': c['bkg_poisson']},
                      sig_kwargs={'poisson': c['sig_poisson']})
            if prior:
                # unrelated earlier use: other services, the same analysis / RandomChoice / generator objects,
                # the global numpy generator
                other = RandomStateService(seed=c['seed'] + 17)
                other.random.random(13)
                np.random.seed(rng.randint(0, 10 ** 6))
                np.random.random(5)
                ana.do_trials(rss=RandomStateService(seed=c['seed'] + 1), n=2, ncpu=1, **kw)
                ana._sig_generator.rc(rss=other, size=5)
                ana._minimizer_impl.trial = -1
            r = ana.do_trials(rss=RandomStateService(seed=c['seed']), n=c['ntrials'], ncpu=ncpu, **kw)
            return r.tobytes()
        def outcome(prior):
            try:
                return one(prior)
            except Exception as ex:      # e.g. the scripted minimiser never converges: must be the same outcome every time
                return 'raised:' + exc_name(ex)
        a, b, d = outcome(False), outcome(False), outcome(True)
        if isinstance(a, str):
            ctx.count('determinism:' + a)
        if a != b:
            ctx.violation('Analysis.do_trials', 'not-reproducible', 'two runs with equal seed and configuration differ bytewise',
                          case=c, predicate='bytes(run1) == bytes(run2)')
        if a != d:
            ctx.violation('Analysis.do_trials', 'history-dependent', 'the result depends on unrelated earlier use of the objects',
                          case=c, predicate='bytes(run after prior use) == bytes(fresh run)')



# ===================================================================== completion order of the workers

def _order_task(rss, tag):
    """stand-in for Analysis.do_trial: "pseudo data" from the handed service"""
    return (tag, rss.seed, int(rss.random.randint(0, 1000003)), float(rss.random.random()))


def _sequential_oracle(seed, ntasks, ncpu):
    """what parallelize must return, computed without processes: chunks of np.array_split in pid order, master =
    parent stream after the ncpu-1 seed draws, worker k = RandomState(k-th randint(0, 2**32) of the parent)"""
    parent = np.random.RandomState(seed)
    if ncpu == 1:
        streams, seeds = [parent], [seed]
    else:
        wseeds = [int(parent.randint(0, 2 ** 32)) for _ in range(ncpu - 1)]
        streams = [parent] + [np.random.RandomState(s) for s in wseeds]
        seeds = [seed] + wseeds
    out = []
    for pid, chunk in enumerate(np.array_split(np.arange(ntasks), ncpu)):
        for tag in chunk:
            out.append((int(tag), seeds[pid], int(streams[pid].randint(0, 1000003)), float(streams[pid].random())))
    return out


def _with_plan(plan, f):
    import json as _json
    old = os.environ.get('ICECUBE_SKYLLH_VERIF_PLAN')
    os.environ['ICECUBE_SKYLLH_VERIF_PLAN'] = _json.dumps(plan)
    try:
        return f()
    finally:
        if old is None:
            os.environ.pop('ICECUBE_SKYLLH_VERIF_PLAN', None)
        else:
            os.environ['ICECUBE_SKYLLH_VERIF_PLAN'] = old


def run_completion_order(ctx, only=None):
    """same seed, same ncpu => same bytes for ANY completion order of the worker processes (ncpu 3, 4, also more
    processes than tasks): one worker at a time is delayed through the guarded hook in worker_wrapper, so that
    higher pids deliver their result records before lower ones"""
    from skyllh.core.multiproc import parallelize
    from skyllh.core.random import RandomStateService
    rng = ctx.rng
    delay = 0.25
    combos = only or ([(rng.choice([0, 1, 7, 42]), 3, 6), (rng.choice([0, 5, 2 ** 32 - 1]), 4, 9), (3, 4, 2), (1, 3, 3)]
                      + ([(rng.randint(0, 10 ** 6), n, t) for n in (3, 4, 5) for t in (1, 5, 12)] if ctx.thorough() else []))
    for seed, ncpu, ntasks in combos:
        case = {'kind': 'order', 'seed': seed, 'ncpu': ncpu, 'ntasks': ntasks}
        ctx.case(case)
        ctx.count(f'order:ncpu:{ncpu}' + (':more-procs-than-tasks' if ncpu > ntasks else ''))
        want = _sequential_oracle(seed, ntasks, ncpu)
        sizes = [len(c) for c in np.array_split(np.arange(ntasks), ncpu)]
        plans = [('no-delay', [])]
        for slow in range(1, ncpu - 1):          # delaying the last worker cannot reverse an order
            if sizes[slow] > 0:
                plans.append((f'worker-{slow}-slow', [{'pid': slow, 'task': 0, 'action': f'sleep:{delay}'}]))
        results = {}
        for name, plan in plans:
            try:
                res = _with_plan(plan, lambda: parallelize(_order_task, [((), {'tag': i}) for i in range(ntasks)], ncpu,
                                                           rss=RandomStateService(seed=seed)))
                results[name] = [(int(a), int(b), int(c), float(d)) for a, b, c, d in res]
            except Exception as ex:
                results[name] = 'raised:' + exc_name(ex)
        for name, res in results.items():
            c2 = dict(case, plan=name)
            if isinstance(res, str):
                ctx.violation('parallelize', res.replace('raised:', 'raises-'), 'raised under a pure delay', case=c2, impl=res)
            elif res != want:
                kind = 'completion-order-dependent' if sorted(res) == sorted(want) else 'differs-from-sequential'
                ctx.violation('parallelize', kind, f'result with {name} differs from the sequential oracle '
                              '(same seed, same ncpu must give the same list for every completion order)',
                              case=c2, impl=res[:12], model=want[:12], predicate='parallelize(...) == sequential oracle')
    # the same through Analysis.do_trials (real do_trial per task), ncpu = 3
    n_ana = 1 if not ctx.thorough() else 4
    for i in range(n_ana if only is None else 0):
        c = gen_trial_cfg(rng, 6, converging=True)
        c['explicit_minimizer_rss'] = False
        c['alias'] = False
        ctx.case({'order-trials': c})
        ctx.count('order:do_trials:ncpu:3')

        def one(plan):
            ana = build_analysis(c)
            kw = dict(mean_n_sig=c['mean_n_sig'], bkg_kwargs={'poisson': c['bkg_poisson']},
                      sig_kwargs={'poisson': c['sig_poisson']})
            try:
                return _with_plan(plan, lambda: ana.do_trials(rss=RandomStateService(seed=c['seed']), n=6, ncpu=3, **kw).tobytes())
            except Exception as ex:
                return 'raised:' + exc_name(ex)
        a = one([])
        b = one([{'pid': 1, 'task': 0, 'action': f'sleep:{delay}'}])
        if a != b:
            ctx.violation('Analysis.do_trials', 'completion-order-dependent', 'equal seed and ncpu=3: the record array depends on '
                          'which worker finishes first', case=dict(c, kind='order-trials'), predicate='bytes equal for every completion order')


# ===================================================================== the real MC signal generator

def build_sig_generator(nds=2, nshg=2, dec_range=(-0.25, 0.45), shift=0):
    """the real MCMultiDatasetSignalGenerator (generate_signal_events and the re-draw loop are the real code);
    __init__ is bypassed: the candidates, MC data and source hypothesis groups are small stand-ins"""
    from skyllh.core.config import Config
    from skyllh.core.random import RandomChoice
    from skyllh.core.signal_generator import MCMultiDatasetSignalGenerator
    from skyllh.core.storage import DataFieldRecordArray as DFRA
    g = MCMultiDatasetSignalGenerator.__new__(MCMultiDatasetSignalGenerator)
    g._cfg = Config()

    class Method:
        def signal_event_post_sampling_processing(self, shg, meta, events):
            return events

    class SHG:
        sig_gen_method = Method()

    class Mgr:
        shg_list = [SHG() for _ in range(nshg)]

    class Data:
        pass
    g._shg_mgr = Mgr()
    g._data_list = []
    cands = []
    for d in range(nds):
        n = 10 + 3 * d
        mc = DFRA(np.array([(0.1 * i, -0.5 + 0.1 * i, 2. + i, 1.0) for i in range(n)],
                           dtype=[('ra', np.float64), ('dec', np.float64), ('log_energy', np.float64), ('mcweight', np.float64)]))
        dd = Data()
        dd.mc = mc
        g._data_list.append(dd)
        for sh in range(nshg):
            for i in range(n):
                cands.append((d, i, sh, 0, 1.0 + (i * 7 + sh + d + shift) % 4))
    arr = np.array(cands, dtype=[('ds_idx', np.int64), ('ev_idx', np.int64), ('shg_idx', np.int64),
                                 ('shg_src_idx', np.int64), ('weight', np.float64)])
    arr['weight'] /= arr['weight'].sum()
    g._sig_candidates = arr
    g._sig_candidates_random_choice = RandomChoice(items=arr, probabilities=arr['weight'])
    g._valid_event_field_ranges_dict_list = [{'dec': dec_range} for _ in range(nds)]
    return g


def run_signal(ctx):
    """request trace of the real generate_signal_events (+ re-draw loop) vs. `sig_mc` on the logging machine; the
    oracles of the model (invalid events per group, valid events per re-draw) are read off the run"""
    from skyllh.core.random import RandomStateService
    rng = ctx.rng
    exprs, impls = [], []
    for i in range(ctx.budget(16, 300)):
        seed = rng.choice([0, 3, 17, 2 ** 31 + 1])
        poisson = rng.random() < 0.6
        mean = rng.randint(0, 9)
        nans = rng.randint(0, 9)
        rngk = rng.choice([(-0.25, 0.45), (-1.0, 2.0), (0.0, 0.2), (-0.5, 0.05)])
        case = {'kind': 'signal', 'seed': seed, 'poisson': poisson, 'mean': mean, 'poisson_answer': nans, 'dec_range': list(rngk),
                'nds': rng.choice([1, 2, 3]), 'nshg': rng.choice([1, 2])}
        ctx.case(case)
        table = {seed: [nans] + [0] * 400} if poisson else {seed: [0] * 400}
        g = build_sig_generator(case['nds'], case['nshg'], rngk)
        ev, state = [], {'in_redraw': False}
        orig_mask = g._get_invalid_events_mask
        orig_redraw = g._draw_valid_sig_events_for_dataset_and_shg
        orig_choice = g._sig_candidates_random_choice

        def mask(events, d, _o=orig_mask, _s=state, _e=ev):
            m = _o(events, d)
            _e.append(('m', int(np.count_nonzero(m)), len(events), _s['in_redraw']))
            return m

        def redraw(*a, _o=orig_redraw, _s=state, **k):
            _s['in_redraw'] = True
            try:
                return _o(*a, **k)
            finally:
                _s['in_redraw'] = False

        def choice(rss, size, _o=orig_choice, _s=state, _e=ev):
            _e.append(('c', int(size), _s['in_redraw']))
            return _o(rss=rss, size=size)
        g._get_invalid_events_mask = mask
        g._draw_valid_sig_events_for_dataset_and_shg = redraw
        g._sig_candidates_random_choice = choice
        with Recorder(table) as rec:
            rss = RandomStateService(seed=seed)
            try:
                (n, evd) = g.generate_signal_events(rss, mean=float(mean) if poisson else mean, poisson=poisson)
                out = ['Ok', int(n)]
            except Exception as ex:
                out = ['Err', exc_name(ex)]
            log = [req_canon(e) for e in rec.log if e[1] != 'new']
            other = [e for e in rec.log if e[0] != 0]
        nreds = [e[1] for e in ev if e[0] == 'm' and not e[3]]
        valids = []
        for j, e in enumerate(ev):
            if e[0] == 'c' and e[2]:
                v = 0
                if j + 1 < len(ev) and ev[j + 1][0] == 'm' and ev[j + 1][3]:
                    v = ev[j + 1][2] - ev[j + 1][1]
                valids.append(v)
        ctx.count('signal:' + ('poisson' if poisson else 'fixed') + (':redraw' if any(nreds) else ''))
        if other:
            ctx.violation('MCMultiDatasetSignalGenerator.generate_signal_events', 'unexpected-stream', 'a request went to another service',
                          case=case, impl=other[:10])
        if out[0] == 'Ok':
            tot = sum(len(v) for v in evd.values())
            lo, hi = rngk
            bad = [float(x) for v in evd.values() for x in v['dec'] if not (lo <= x <= hi)]
            if tot != out[1] or bad:
                ctx.violation('MCMultiDatasetSignalGenerator.generate_signal_events', 'wrong-events',
                              f'{tot} events for n_signal {out[1]}, {len(bad)} outside the valid range', case=case)
        sizes = [e[1] for e in log if e[0] == 'random']
        if out[0] != 'Ok' or len(sizes) != 1 + len(valids):
            ctx.violation('MCMultiDatasetSignalGenerator.generate_signal_events', 'raises-or-extra-requests', 'raised, or random() requests '
                          'that are not RandomChoice calls', case=case, impl=[out, log[:20]])
            continue
        tbl = f'[({zlit(seed)}, {zlist(([nans] if poisson else []) + [1000 + j for j in range(len(sizes))])})]'
        gl = '[' + '; '.join(zlit(x) for x in nreds) + ']'
        vl = zlist([0] + valids)       # answer 1000 = the first choice, 1001.. = the re-draws
        exprs.append(f"match sig_mc tm_rng Z tm_draw (fun v => v) (fun v => if v =? 1000 then {gl} else []) "
                     f"(fun _ v => nth (Z.to_nat (v - 1000)) {vl} 0) 500 {str(poisson).lower()} {mean} "
                     f"(rss_new tm_rng (tm_seed {tbl}) {zlit(seed)}) with Ok (n, r') => Ok (n, snd (tm_log r')) | Err e => Err e end")
        impls.append((case, out, log))
    if ctx.model_ok and exprs:
        vals = common.coq_eval('c08sig', IMPORTS, exprs)
        for (case, out, log), v in zip(impls, vals):
            ctx.corr_cases += 1
            try:
                m = ['Ok', v[1][0], [coq_req_canon(q) for q in v[1][1]]] if v[0] == 'Ok' else ['Err', v[1]]
            except Exception:
                m = ['unparsed', repr(v)[:200]]
            imp = [out[0], out[1], log] if out[0] == 'Ok' else out
            if m != imp:
                ctx.disagree('generate_signal_events.request-trace', case, imp, m)



# ===================================================================== RandomStateService: seed / reseed

def run_reseed(ctx):
    """RandomStateService as a state machine: op sequences (draw n | reseed s), with reseed to the SAME seed, twice in
    a row, right after construction, from/to seed None - drawn values and the `seed` property vs. the model
    (rss_new / rss_reseed on the table machine fed with each seed's own stream) and vs. a fresh service"""
    from skyllh.core.random import RandomStateService
    rng = ctx.rng
    pool = [0, 5, 2 ** 32 - 1, rng.randint(1, 2 ** 31)]
    NT = 16
    table = {sd: [int(x) for x in np.random.RandomState(sd).randint(0, 2 ** 31, size=1)] for sd in pool}
    for sd in pool:
        ref = np.random.RandomState(sd)
        table[sd] = [int(ref.randint(0, 2 ** 31)) for _ in range(NT)]
    seqs = []
    for s0 in pool:
        seqs.append((s0, [('d', 3), ('r', s0), ('d', 3)]))                       # the seeded defect's history
        seqs.append((s0, [('r', s0), ('d', 2), ('r', s0), ('r', s0), ('d', 2)]))   # right away, and twice
        seqs.append((s0, [('d', 1), ('r', pool[(pool.index(s0) + 1) % 4]), ('d', 2), ('r', s0), ('d', 2)]))
    for _ in range(ctx.budget(12, 200)):
        s0 = rng.choice(pool)
        ops, cur, used = [], s0, 0
        for _ in range(rng.randint(2, 7)):
            if rng.random() < 0.5 and used < NT - 4:
                n = rng.randint(0, 3)
                ops.append(('d', n))
                used += n
            else:
                cur = cur if rng.random() < 0.6 else rng.choice(pool)
                ops.append(('r', cur))
                used = 0
        ops.append(('d', 2))
        seqs.append((s0, ops))
    exprs, impls = [], []
    tbl = '[' + '; '.join(f'({zlit(k)}, {zlist(v)})' for k, v in table.items()) + ']'
    for s0, ops in seqs:
        case = {'kind': 'reseed', 'seed0': s0, 'ops': ops}
        ctx.case(case)
        ctx.count('reseed:same-seed' if any(o == ('r', s0) for o in ops) else 'reseed:other')
        rss = RandomStateService(seed=s0)
        cur, pos, got, want = s0, 0, [], []
        ok = True
        for o in ops:
            if o[0] == 'd':
                for _ in range(o[1]):
                    got.append(int(rss.random.randint(0, 2 ** 31)))
                    want.append(table[cur][pos] if pos < NT else None)
                    pos += 1
            else:
                rss.reseed(o[1])
                cur, pos = o[1], 0
                if rss.seed != o[1]:
                    ctx.violation('RandomStateService.reseed', 'seed-property', f'seed is {rss.seed} after reseed({o[1]})', case=case)
        got.append(int(rss.seed))
        want.append(cur)
        if got != want:
            ctx.violation('RandomStateService.reseed', 'stream-not-rewound',
                          'after reseed(s) the draws differ from those of a fresh RandomStateService(s)',
                          case=case, impl=got, model=want, predicate='reseed(s); draws == RandomStateService(s) draws')
        opl = '[' + '; '.join((f'inl {o[1]}%nat' if o[0] == 'd' else f'inr {zlit(o[1])}') for o in ops) + ']'
        exprs.append(f"(fix go (ops : list (nat + Z)) (r : rss tm_rng) : list Z := match ops with [] => [rss_seed tm_rng r] "
                     f"| inl n :: rest => let '(vs, r') := tm_script (repeat (RRandint 0 2147483648) n) r in vs ++ go rest r' "
                     f"| inr sd :: rest => go rest (rss_reseed tm_rng (tm_seed {tbl}) r sd) end) {opl} (rss_new tm_rng (tm_seed {tbl}) {zlit(s0)})")
        impls.append((case, got))
    # seed=None: the property stays None, reseed(s) from it gives the stream of s, reseed(None) keeps working
    try:
        r = RandomStateService(seed=None)
        if r.seed is not None:
            ctx.violation('RandomStateService', 'none-seed', 'seed property of an unseeded service is not None', case={'kind': 'reseed-none'})
        r.random.random(3)
        r.reseed(7)
        if r.seed != 7 or r.random.random(4).tobytes() != np.random.RandomState(7).random(4).tobytes():
            ctx.violation('RandomStateService.reseed', 'stream-not-rewound', 'reseed(7) on an unseeded service', case={'kind': 'reseed-none'})
        r.reseed(None)
        if r.seed is not None:
            ctx.violation('RandomStateService.reseed', 'none-seed', 'seed property after reseed(None) is not None', case={'kind': 'reseed-none'})
        r.random.random(2)
        ctx.count('reseed:none')
    except Exception as ex:
        ctx.violation('RandomStateService', 'raises-' + exc_name(ex), 'seed=None handling raised', case={'kind': 'reseed-none'})
    if ctx.model_ok:
        vals = common.coq_eval('c08rs', IMPORTS, exprs)
        for (case, got), v in zip(impls, vals):
            ctx.corr_cases += 1
            if list(v) != got:
                ctx.disagree('RandomStateService.reseed', case, got, list(v))


# ===================================================================== history probes on the real objects

def _b(x):
    """canonical bytes of a result (ndarray, DataFieldRecordArray, tuples of them, scalars)"""
    if isinstance(x, (tuple, list)):
        return b'(' + b'|'.join(_b(y) for y in x) + b')'
    if isinstance(x, dict):
        return b'<' + b'|'.join(str(int(k)).encode() + b':' + _b(x[k]) for k in sorted(x)) + b'>'
    if hasattr(x, 'field_name_list'):
        return b'{' + b'|'.join(n.encode() + b'=' + np.ascontiguousarray(x[n]).tobytes() for n in sorted(x.field_name_list)) + b'}'
    if isinstance(x, np.ndarray):
        return str(x.dtype).encode() + str(x.shape).encode() + np.ascontiguousarray(x).tobytes()
    return repr(x).encode()


def history_subjects():
    """(name, [factory variants], [(call name, f(obj, rss) -> result)], state snapshot or None, post-condition or None).
    Every call must be a function of (constructor arguments, call arguments, seed) only."""
    from skyllh.core.config import Config
    from skyllh.core.random import RandomChoice
    from skyllh.core.livetime import Livetime
    from skyllh.core.times import LivetimeTimeGenerationMethod, TimeGenerator
    from skyllh.core.parameters import Parameter, ParameterSet
    from skyllh.core.background_generation import MCDataSamplingBkgGenMethod
    from skyllh.core.scrambling import DataScrambler, UniformRAScramblingMethod
    from skyllh.core.dataset import DatasetData
    from skyllh.core.storage import DataFieldRecordArray as DFRA
    cfg = Config()
    subjects = []

    # --- Livetime.draw_ontimes and the time generators built on it
    ivs_a = np.array([[10., 20.], [30., 50.], [50., 60.], [80., 80.], [90., 100.]])
    ivs_b = np.array([[0., 1.], [2., 2.5], [7., 19.]])

    def on_time(ivs, lo=None, hi=None):
        def post(res):
            t = np.atleast_1d(np.asarray(res, dtype=np.float64))
            ok = np.zeros(t.shape, dtype=bool)
            for (l, u) in ivs:
                ok |= (l <= t) & (t < u)
            if lo is not None:
                ok &= (lo <= t) & (t < hi)
            return bool(np.all(ok))
        return post
    lt_calls = [
        ('draw(size=7)', lambda o, r: o.draw_ontimes(r, 7), 'a'),
        ('draw(size=5, t_min=35, t_max=95)', lambda o, r: o.draw_ontimes(r, 5, t_min=35., t_max=95.), ('a', 35., 95.)),
        ('draw(size=4, t_min=55)', lambda o, r: o.draw_ontimes(r, 4, t_min=55.), None),
        ('draw(size=3, t_max=15)', lambda o, r: o.draw_ontimes(r, 3, t_max=15.), None),
        ('draw(size=2)', lambda o, r: o.draw_ontimes(r, 2), 'a'),
    ]
    subjects.append(('Livetime.draw_ontimes',
                     [lambda: Livetime(ivs_a.copy()), lambda: Livetime(ivs_b.copy())],
                     [(n, f) for n, f, _ in lt_calls],
                     lambda o: o.uptime_mjd_intervals_arr.tobytes(),
                     {'draw(size=7)': [on_time(ivs_a), on_time(ivs_b)], 'draw(size=2)': [on_time(ivs_a), on_time(ivs_b)],
                      'draw(size=5, t_min=35, t_max=95)': [on_time(ivs_a, 35., 95.), None]}))
    subjects.append(('TimeGenerator.generate_times',
                     [lambda: TimeGenerator(LivetimeTimeGenerationMethod(Livetime(ivs_a.copy()))),
                      lambda: TimeGenerator(LivetimeTimeGenerationMethod(Livetime(ivs_b.copy())))],
                     [('times(6)', lambda o, r: o.generate_times(r, 6)),
                      ('times(3, t_min=12, t_max=16)', lambda o, r: o.generate_times(r, 3, t_min=12., t_max=16.)),
                      ('times(1)', lambda o, r: o.generate_times(r, 1))],
                     lambda o: o.method.livetime.uptime_mjd_intervals_arr.tobytes(),
                     {'times(6)': [on_time(ivs_a), on_time(ivs_b)], 'times(1)': [on_time(ivs_a), on_time(ivs_b)]}))

    # --- RandomChoice
    subjects.append(('RandomChoice.__call__',
                     [lambda: RandomChoice(np.arange(6) * 2, np.array([0, .25, 0, .5, .25, 0])),
                      lambda: RandomChoice(np.arange(4) + 100, np.array([.5, 0, 0, .5], dtype=np.float32))],
                     [('choice(5)', lambda o, r: o(r, 5)), ('choice(0)', lambda o, r: o(r, 0)),
                      ('choice(11)', lambda o, r: o(r, 11)), ('choice(1)', lambda o, r: o(r, 1))],
                     lambda o: o.items.tobytes() + o.probabilities.tobytes() + o._cdf.tobytes(), None))

    # --- ParameterSet.generate_random_floating_param_initials
    subjects.append(('ParameterSet.generate_random_floating_param_initials',
                     [lambda: ParameterSet([Parameter('a', 1., 0., 2.), Parameter('b', 3., 1., 9.), Parameter('c', 5.)]),
                      lambda: ParameterSet([Parameter('x', 0., -1., 1.)])],
                     [('initials', lambda o, r: o.generate_random_floating_param_initials(r)),
                      ('initials+values', lambda o, r: (o.generate_random_floating_param_initials(r), o.floating_param_bounds))],
                     lambda o: o.floating_param_bounds.tobytes() + o.floating_param_initials.tobytes(), None))

    # --- UniformRAScramblingMethod / DataScrambler
    def evs(n, off=0.):
        return DFRA(np.array([(0.1 * i + off, 0.01 * i, 2. + i) for i in range(n)],
                             dtype=[('ra', np.float64), ('dec', np.float64), ('log_energy', np.float64)]))
    subjects.append(('DataScrambler.scramble_data',
                     [lambda: DataScrambler(UniformRAScramblingMethod()),
                      lambda: DataScrambler(UniformRAScramblingMethod(ra_range=(1., 2.)))],
                     [('scramble(8 events, copy)', lambda o, r: o.scramble_data(r, None, evs(8), copy=True)),
                      ('scramble(3 events)', lambda o, r: o.scramble_data(r, None, evs(3, 1.))),
                      ('scramble(0 events)', lambda o, r: o.scramble_data(r, None, evs(0)))],
                     None, None))

    # --- MCDataSamplingBkgGenMethod.generate_events (RandomChoice cache keyed on the data instance)
    class DS:
        name = 'stub'

    def mkdata(n, k):
        mc = DFRA(np.array([(0.1 * i, 0.01 * i - 0.05, 2.0 + 0.25 * i, float((i * 7 + k) % 5)) for i in range(n)],
                           dtype=[('ra', np.float64), ('dec', np.float64), ('log_energy', np.float64), ('mcweight', np.float64)]))
        exp = DFRA(np.array([(0.1, 0.01, 2.0)], dtype=[('ra', np.float64), ('dec', np.float64), ('log_energy', np.float64)]))
        return DatasetData(data_exp=exp, data_mc=mc, livetime=1.0)

    def prob(dataset, data, events):
        w = np.array(events['mcweight'], dtype=np.float64)
        return w / w.sum()

    class BkgBox:
        """a method together with the two data sets it serves"""
        def __init__(self, scramble):
            self.m = MCDataSamplingBkgGenMethod(
                cfg=cfg, get_event_prob_func=prob, get_mean_func=None,
                data_scrambler=DataScrambler(UniformRAScramblingMethod()) if scramble else None,
                keep_mc_data_fields=['mcweight'])
            self.d1, self.d2 = mkdata(14, 0), mkdata(9, 3)

        def snap(self):
            return b''.join(_b(d.mc) + _b(d.exp) for d in (self.d1, self.d2))
    subjects.append(('MCDataSamplingBkgGenMethod.generate_events',
                     [lambda: BkgBox(True), lambda: BkgBox(False)],
                     [('events(data1, mean=5, poisson)', lambda o, r: o.m.generate_events(r, DS(), o.d1, mean=5.0)),
                      ('events(data2, mean=3, fixed)', lambda o, r: o.m.generate_events(r, DS(), o.d2, mean=3.0, poisson=False)),
                      ('events(data1, mean=2, fixed)', lambda o, r: o.m.generate_events(r, DS(), o.d1, mean=2.0, poisson=False)),
                      ('events(data2, mean=6, poisson)', lambda o, r: o.m.generate_events(r, DS(), o.d2, mean=6.0))],
                     lambda o: o.snap(), None))
    # --- the real MCMultiDatasetSignalGenerator (generate_signal_events + re-draw loop)
    subjects.append(('MCMultiDatasetSignalGenerator.generate_signal_events',
                     [lambda: build_sig_generator(2, 2, (-0.25, 0.45)), lambda: build_sig_generator(3, 1, (-0.5, 0.05), shift=2)],
                     [('signal(mean=6, poisson)', lambda o, r: o.generate_signal_events(r, mean=6.0)),
                      ('signal(mean=4, fixed)', lambda o, r: o.generate_signal_events(r, mean=4, poisson=False)),
                      ('signal(mean=0, fixed)', lambda o, r: o.generate_signal_events(r, mean=0, poisson=False)),
                      ('signal(mean=9, fixed)', lambda o, r: o.generate_signal_events(r, mean=9, poisson=False))],
                     lambda o: b''.join(_b(d.mc) for d in o._data_list) + o._sig_candidates.tobytes(), None))
    # --- time scrambling (core and IceCube flavour), fixed scrambled exp data as background
    from skyllh.core.scrambling import TimeScramblingMethod
    from skyllh.i3.scrambling import I3TimeScramblingMethod
    from skyllh.i3.background_generation import FixedScrambledExpDataI3BkgGenMethod

    def hevs(n, off=0.):
        return DFRA(np.array([(0.1 * i + off, 0.01 * i, 0.2 * i, 0.5 + 0.05 * i, 0.0) for i in range(n)],
                             dtype=[('ra', np.float64), ('dec', np.float64), ('azi', np.float64), ('zen', np.float64),
                                    ('time', np.float64)]))

    def tgen(ivs):
        return TimeGenerator(LivetimeTimeGenerationMethod(Livetime(ivs.copy())))
    subjects.append(('TimeScramblingMethod.scramble',
                     [lambda: DataScrambler(TimeScramblingMethod(tgen(ivs_a), lambda azi, zen, mjd: ((azi + mjd) % 6.28, zen - 1.57))),
                      lambda: DataScrambler(I3TimeScramblingMethod(tgen(ivs_b)))],
                     [('scramble(6 events, copy)', lambda o, r: o.scramble_data(r, None, hevs(6), copy=True)),
                      ('scramble(2 events)', lambda o, r: o.scramble_data(r, None, hevs(2, 1.))),
                      ('scramble(9 events)', lambda o, r: o.scramble_data(r, None, hevs(9, 2.)))],
                     None, None))

    class ExpBox:
        def __init__(self, ivs):
            self.m = FixedScrambledExpDataI3BkgGenMethod(cfg=cfg, data_scrambler=DataScrambler(I3TimeScramblingMethod(tgen(ivs))))
            self.d1 = DatasetData(data_exp=hevs(7), data_mc=None, livetime=1.0)
            self.d2 = DatasetData(data_exp=hevs(4, 3.), data_mc=None, livetime=1.0)

        def snap(self):
            return _b(self.d1.exp) + _b(self.d2.exp)
    subjects.append(('FixedScrambledExpDataI3BkgGenMethod.generate_events',
                     [lambda: ExpBox(ivs_a), lambda: ExpBox(ivs_b)],
                     [('events(data1)', lambda o, r: o.m.generate_events(r, DS(), o.d1)),
                      ('events(data2)', lambda o, r: o.m.generate_events(r, DS(), o.d2)),
                      ('events(data1) again', lambda o, r: o.m.generate_events(r, DS(), o.d1))],
                     lambda o: o.snap(), None))

    # --- the real MultiDatasetSignalGenerator (distribution of n over the data sets incl. the rounding draws)
    subjects.append(('MultiDatasetSignalGenerator.generate_signal_events',
                     [lambda: build_md_sig_generator([0.5, 0.3, 0.2]), lambda: build_md_sig_generator([0.34, 0.33, 0.33])],
                     [('signal(mean=7, fixed)', lambda o, r: o.generate_signal_events(r, mean=7, poisson=False)),
                      ('signal(mean=5.5, poisson)', lambda o, r: o.generate_signal_events(r, mean=5.5)),
                      ('signal(mean=2, fixed)', lambda o, r: o.generate_signal_events(r, mean=2, poisson=False)),
                      ('signal(mean=11, fixed)', lambda o, r: o.generate_signal_events(r, mean=11, poisson=False))],
                     None, None))
    return subjects


def build_md_sig_generator(weights):
    """the real MultiDatasetSignalGenerator.generate_signal_events; services and per-dataset generators are stand-ins
    that draw from the service they are handed"""
    from skyllh.core.config import Config
    from skyllh.core.signal_generator import MultiDatasetSignalGenerator
    g = MultiDatasetSignalGenerator.__new__(MultiDatasetSignalGenerator)
    g._cfg = Config()

    class W:
        def calculate(self, *a, **k):
            pass

    class F:
        src_detsigyield_weights_service = W()

        def calculate(self):
            pass

        def get_weights(self):
            return (np.array(weights, dtype=np.float64), None)

    class DsGen:
        def __init__(self, k):
            self.k = k

        def generate_signal_events(self, rss, mean, poisson, src_detsigyield_weights_service=None):
            n = int(mean)
            return (n, {self.k: np.asarray(rss.random.uniform(size=n)) + self.k})
    g._ds_sig_weight_factors_service = F()
    g._src_params_recarray = np.zeros((1,), dtype=[('x', np.float64)])
    g._sig_generator_list = [DsGen(k) for k in range(len(weights))]

    class Arr(np.ndarray):
        pass
    return g


def run_id_reuse(ctx):
    """corpus of fix 77d8afa: a method that served DatasetData A must not serve a NEW DatasetData B from A's cache after A
    was freed and B got A's address (the cache was keyed on id(data) only)"""
    import gc
    from skyllh.core.config import Config
    from skyllh.core.random import RandomStateService
    from skyllh.core.background_generation import MCDataSamplingBkgGenMethod
    from skyllh.core.dataset import DatasetData
    from skyllh.core.storage import DataFieldRecordArray as DFRA
    cfg = Config()

    def mkdata(n, k):
        mc = DFRA(np.array([(0.1 * i + k, 0.01 * i, 2.0 + i, 1.0) for i in range(n)],
                           dtype=[('ra', float), ('dec', float), ('log_energy', float), ('mcweight', float)]))
        exp = DFRA(np.array([(0.1, 0.01, 2.0)], dtype=[('ra', float), ('dec', float), ('log_energy', float)]))
        return DatasetData(data_exp=exp, data_mc=mc, livetime=1.0)

    def prob(dataset, data, events):
        w = np.array(events['mcweight'])
        return w / w.sum()

    class DS:
        name = 's'

    def method():
        return MCDataSamplingBkgGenMethod(cfg=cfg, get_event_prob_func=prob, get_mean_func=None, data_scrambler=None,
                                          keep_mc_data_fields=['mcweight'])
    def parts(n, k):
        mc = DFRA(np.array([(0.1 * i + k, 0.01 * i, 2.0 + i, 1.0) for i in range(n)],
                           dtype=[('ra', float), ('dec', float), ('log_energy', float), ('mcweight', float)]))
        exp = DFRA(np.array([(0.1, 0.01, 2.0)], dtype=[('ra', float), ('dec', float), ('log_energy', float)]))
        return mc, exp
    reused = 0
    for attempt in range(5):
        m = method()
        mc1, exp1 = parts(10, 0.0)
        mc2, exp2 = parts(10, 100.0)
        d1 = DatasetData(data_exp=exp1, data_mc=mc1, livetime=1.0)
        i1 = id(d1)
        m.generate_events(RandomStateService(1), DS(), d1, mean=3.0, poisson=False)
        del d1
        gc.collect()
        # allocate new DatasetData objects until one lands on the freed address (the others are kept alive)
        hold, d2 = [], None
        for _ in range(3000):
            cand = DatasetData(data_exp=exp2, data_mc=mc2, livetime=1.0)
            if id(cand) == i1:
                d2 = cand
                break
            hold.append(cand)
        same = d2 is not None
        if d2 is None:
            d2 = DatasetData(data_exp=exp2, data_mc=mc2, livetime=1.0)
        reused += same
        (n, ev) = m.generate_events(RandomStateService(1), DS(), d2, mean=3.0, poisson=False)
        (n2, ev2) = method().generate_events(RandomStateService(1), DS(), d2, mean=3.0, poisson=False)
        ctx.case({'id-reuse': attempt})
        if _b(ev) != _b(ev2) or n != n2:
            ctx.violation('MCDataSamplingBkgGenMethod.generate_events', 'stale-cache-after-id-reuse',
                          f'events for a new DatasetData are drawn from the cache of a freed one (id re-used: {bool(same)}): '
                          f'ra {np.asarray(ev["ra"])[:3]} vs fresh {np.asarray(ev2["ra"])[:3]}',
                          case={'kind': 'id-reuse', 'attempt': attempt}, predicate='result depends on the data handed in, not on a freed one')
            break
        del hold
    ctx.count('history:id-reuse-attempts', attempt + 1)
    ctx.count('history:id-reuse-address-reused', int(reused))


def run_history(ctx):
    """same seed => same bytes on (i) a fresh object, (ii) an object that served other arguments before, (iii) the same
    call repeated / after re-seeding, (iv) two instances used alternately; stored state and results stay untouched"""
    from skyllh.core.random import RandomStateService
    rng = ctx.rng
    seeds = [0, rng.randint(1, 2 ** 31)] + ([rng.randint(1, 2 ** 31) for _ in range(3)] if ctx.thorough() else [])
    for name, factories, calls, snap, posts in history_subjects():
        for seed in seeds:
            # (i) fresh reference per variant and call
            ref = {}
            for vi, fac in enumerate(factories):
                for cn, f in calls:
                    try:
                        ref[(vi, cn)] = _b(f(fac(), RandomStateService(seed)))
                    except Exception as ex:
                        ref[(vi, cn)] = b'raised:' + exc_name(ex).encode()

            def check(kind, vi, cn, got, hist):
                ctx.case({'history': name, 'kind': kind, 'variant': vi, 'call': cn, 'seed': seed, 'hist': hist})
                ctx.count('history:' + kind)
                if got != ref[(vi, cn)]:
                    ctx.violation(name, 'history-dependent', f'{cn} with seed {seed} after [{", ".join(hist)}] differs from the same '
                                  'call on a fresh object', case={'kind': 'history', 'subject': name, 'probe': kind, 'variant': vi,
                                                                 'call': cn, 'seed': seed, 'history': hist},
                                  predicate='result is a function of (constructor arguments, call arguments, seed)')

            def run(o, f, r):
                try:
                    return _b(f(o, r))
                except Exception as ex:
                    return b'raised:' + exc_name(ex).encode()
            for vi, fac in enumerate(factories):
                # post-conditions of the fresh results (on-time membership)
                for cn, f in calls:
                    pc = (posts or {}).get(cn)
                    if pc and pc[vi]:
                        o = fac()
                        for prior_cn, prior_f in calls:
                            if prior_cn != cn:
                                run(o, prior_f, RandomStateService(seed + 1))
                        try:
                            res = f(o, RandomStateService(seed))
                            if not pc[vi](res):
                                ctx.violation(name, 'post-condition-after-history', f'{cn} after other calls violates its post-condition',
                                              case={'kind': 'history', 'subject': name, 'variant': vi, 'call': cn, 'seed': seed})
                        except Exception:
                            pass
                for ti, (cn, f) in enumerate(calls):
                    # (iii) repeat, and repeat after re-seeding the same service
                    o = fac()
                    s0 = snap(o) if snap else None
                    first = f(o, RandomStateService(seed)) if not ref[(vi, cn)].startswith(b'raised:') else None
                    first_b = _b(first) if first is not None else None
                    check('repeat', vi, cn, run(o, f, RandomStateService(seed)), [cn])
                    r = RandomStateService(seed + 5)
                    run(o, f, r)
                    r.reseed(seed)
                    check('reseed', vi, cn, run(o, f, r), [cn, cn + ' (other seed)', 'reseed'])
                    # the same service object, re-seeded with the seed it already has (once, twice), fresh and used object
                    r = RandomStateService(seed)
                    run(o, f, r)
                    r.reseed(seed)
                    check('reseed-same', vi, cn, run(o, f, r), [cn, 'reseed(same seed)'])
                    r.reseed(seed)
                    r.reseed(seed)
                    check('reseed-same', vi, cn, run(fac(), f, r), [cn, cn, 'reseed(same seed) twice', 'fresh object'])
                    if first is not None and _b(first) != first_b:
                        ctx.violation(name, 'result-overwritten', f'the result of {cn} changed when the call was repeated',
                                      case={'kind': 'history', 'subject': name, 'variant': vi, 'call': cn, 'seed': seed})
                    # (ii) every other call first (each single one, and all of them), then the target
                    others = [(n2, f2) for n2, f2 in calls if n2 != cn]
                    for hist in [[x] for x in others] + [others, list(reversed(others))]:
                        o = fac()
                        for n2, f2 in hist:
                            run(o, f2, RandomStateService(seed + 11))
                        check('interleave', vi, cn, run(o, f, RandomStateService(seed)), [n2 for n2, _ in hist])
                    if snap and snap(o) != s0:
                        ctx.violation(name, 'stored-state-modified', f'stored data of the object changed by calls ending with {cn}',
                                      case={'kind': 'history', 'subject': name, 'variant': vi, 'call': cn, 'seed': seed})
            # (iv) two instances, built before first use, used alternately
            if len(factories) >= 2:
                o0, o1 = factories[0](), factories[1]()
                for cn, f in calls + list(reversed(calls)):
                    g0 = run(o0, f, RandomStateService(seed))
                    g1 = run(o1, f, RandomStateService(seed))
                    check('two-instances', 0, cn, g0, ['alternating with variant 1'])
                    check('two-instances', 1, cn, g1, ['alternating with variant 0'])


def static_scan(ctx):
    """every source of randomness in skyllh/ must be the `random` attribute of a RandomStateService that was handed in:
    no global numpy generator, no `random` module under any import spelling, no RandomState / Generator built outside
    core/random.py, no RandomStateService built inside a function that is handed one (except the two sanctioned sites),
    no scipy `.rvs()` without random_state=<service>.random"""
    bad = []
    root = os.path.join(common.REPO, 'skyllh')
    nfiles = 0
    SANCTIONED_NEW_SERVICE = {('skyllh/core/analysis.py', 'do_trial'), ('skyllh/core/multiproc.py', 'parallelize')}
    for dp, dn, fn in os.walk(root):
        for f in fn:
            if not f.endswith('.py'):
                continue
            path = os.path.join(dp, f)
            rel = os.path.relpath(path, common.REPO)
            nfiles += 1
            try:
                tree = ast.parse(open(path).read())
            except SyntaxError:
                continue
            # names bound to numpy / numpy.random / random modules by the imports of this file
            np_names, npr_names = {'np', 'numpy'}, set()
            for node in ast.walk(tree):
                if isinstance(node, ast.Import):
                    for a in node.names:
                        if a.name == 'numpy':
                            np_names.add(a.asname or 'numpy')
                        if a.name == 'numpy.random':
                            bad.append((rel, node.lineno, 'import numpy.random'))
                            npr_names.add(a.asname or 'numpy')
                        if a.name == 'random' or a.name.startswith('random.'):
                            bad.append((rel, node.lineno, 'import random'))
                if isinstance(node, ast.ImportFrom) and node.level == 0:
                    if node.module in ('random', 'numpy.random', 'numpy.random.mtrand', 'secrets'):
                        bad.append((rel, node.lineno, 'from ' + node.module + ' import ...'))
                    if node.module == 'numpy' and any(a.name == 'random' for a in node.names):
                        bad.append((rel, node.lineno, 'from numpy import random'))
            # enclosing function of every node
            parents = {}
            for node in ast.walk(tree):
                for ch in ast.iter_child_nodes(node):
                    parents[ch] = node

            def enclosing_funcs(n):
                out = []
                while n in parents:
                    n = parents[n]
                    if isinstance(n, (ast.FunctionDef, ast.AsyncFunctionDef)):
                        out.append(n)
                return out
            for node in ast.walk(tree):
                if isinstance(node, ast.Attribute) and isinstance(node.value, ast.Attribute) \
                        and node.value.attr == 'random' and isinstance(node.value.value, ast.Name) \
                        and node.value.value.id in np_names:
                    if not (node.attr == 'RandomState' and rel == 'skyllh/core/random.py'):
                        bad.append((rel, node.lineno, 'np.random.' + node.attr))
                if isinstance(node, ast.Call):
                    callee = ast.unparse(node.func)
                    last = callee.split('.')[-1]
                    if last in ('RandomState', 'default_rng', 'Generator', 'MT19937', 'PCG64', 'SeedSequence') \
                            and rel != 'skyllh/core/random.py':
                        bad.append((rel, node.lineno, callee + '(...)'))
                    if last == 'RandomStateService':
                        fs = enclosing_funcs(node)
                        handed = [fn_ for fn_ in fs if any(a.arg in ('rss', 'minimizer_rss') for a in
                                                           fn_.args.args + fn_.args.kwonlyargs)]
                        if handed and not any((rel, fn_.name) in SANCTIONED_NEW_SERVICE for fn_ in fs):
                            bad.append((rel, node.lineno, f'RandomStateService(...) inside {handed[0].name}(rss, ...)'))
                    if last == 'rvs':
                        kw = {k.arg: ast.unparse(k.value) for k in node.keywords}
                        if 'random_state' not in kw or not kw['random_state'].endswith('.random'):
                            bad.append((rel, node.lineno, callee + '(...) without random_state=<service>.random'))
    ctx.count('static:files-scanned', nfiles)
    if bad:
        ctx.violation('skyllh', 'unsanctioned-randomness', f'randomness outside the handed RandomStateService: {bad[:5]}',
                      case={'kind': 'static', 'sites': bad[:20]}, predicate='all randomness flows through rss.random')


# ===================================================================== driver

def choice_cases(ctx):
    rng = ctx.rng
    cases = []
    # corpus
    cases.append({'kind': 'choice', 'p': [float(x).hex() for x in [0, .25, 0, .5, .25, 0]], 'dtype': 'f8',
                  'u': [float(x).hex() for x in [0.75, 0.0, 0.25, 0.999, 0.125, 1 - 2.0 ** -53]], 'items': None, 'junk': 77,
                  'shape': 'corpus'})
    cases.append({'kind': 'choice', 'p': [float(1).hex()], 'dtype': 'f4', 'u': [float(0).hex(), (1 - 2.0 ** -53).hex()],
                  'items': [42], 'junk': 0, 'shape': 'corpus'})
    cases.append({'kind': 'choice', 'p': [float(x).hex() for x in [0.5, 0.5]], 'dtype': 'f8',
                  'u': [float(x).hex() for x in [0.5, 0.5, 0.25, 0.5]], 'items': None, 'junk': 3, 'shape': 'corpus',
                  'perm_reverse_ties': True})
    cases += malformed_choice_cases(rng)
    for n in ([1, 2, 3, 7, 64, 1000] + ([10 ** 4, 10 ** 5] if True else [])):
        for dtype in ('f8', 'f4'):
            cases.append(gen_choice_case(ctx, rng, n=n, dtype=dtype, shape=rng.choice(['zeros', 'lead-trail', 'heavy']),
                                         nu=9 if n >= 10 ** 4 else None))
    if ctx.thorough():
        for n in (10 ** 5, 99999, 65536, 31337):
            for shape in ('zeros', 'lead-trail', 'uniform', 'onehot', 'dyadic'):
                cases.append(gen_choice_case(ctx, rng, n=n, shape=shape, nu=12))
    n_rand = ctx.budget(250, 20000)
    while len(cases) < n_rand:
        cases.append(gen_choice_case(ctx, rng))
    return cases


def run(ctx):
    static_scan(ctx)
    exe = common.ocaml_build(ctx, 'c08') if ctx.model_ok else None
    cases = choice_cases(ctx)
    run_choice(ctx, exe, cases)
    ctx.sample({'choice': {k: (v if k not in ('p', 'u') else [float.fromhex(x) for x in v][:8]) for k, v in cases[0].items()}})
    run_seed(ctx)
    run_trial_file(ctx)
    run_kwargs_reuse(ctx)
    run_initials(ctx)
    run_workers(ctx)
    run_completion_order(ctx)
    run_reseed(ctx)
    run_signal(ctx)
    run_id_reuse(ctx)
    run_history(ctx)
    run_trials(ctx)
    run_determinism(ctx)
    if not ctx.model_ok:
        ctx.notes.append('model did not build: implementation-only predicates were evaluated')


def replay(ctx, rp):
    c = rp.get('case') or {}
    kind = c.get('kind')
    if kind == 'choice' and 'n' not in c:
        exe = common.ocaml_build(ctx, 'c08') if ctx.model_ok else None
        run_choice(ctx, exe, [c])
    elif kind == 'seed':
        impl, extra = impl_extend_seed(c['rss_seed'], c['seeds'])
        ctx.case(c)
        if impl[0] != 'Ok':
            ctx.violation('extend_trial_data_file', 'raises-' + impl[1], 'seed search raised', case=c, impl=impl)
        elif impl[1] in c['seeds']:
            ctx.violation('extend_trial_data_file', 'seed-reused', f'continues with seed {impl[1]} which occurs in the file',
                          case=c, impl=impl)
        if ctx.model_ok:
            v = common.coq_eval('c08r', IMPORTS, [f'extend_seed {zlit(c["rss_seed"])} {zlist(c["seeds"])}'])[0]
            ctx.corr_cases += 1
            if list(v) != impl:
                ctx.disagree('extend_trial_data_file.seed', c, impl, list(v))
    elif kind == 'trial':
        c['scripts'] = [[tuple(x) for x in sc] for sc in c['scripts']]
        run_trials(ctx, only=[c])
    elif kind == 'workers':
        run_workers(ctx)
    elif kind == 'order':
        run_completion_order(ctx, only=[(c['seed'], c['ncpu'], c['ntasks'])])
    elif kind == 'order-trials':
        run_completion_order(ctx)
    elif kind == 'history':
        run_history(ctx)
    elif kind == 'id-reuse':
        run_id_reuse(ctx)
    elif kind in ('reseed', 'reseed-none'):
        run_reseed(ctx)
    elif kind == 'signal':
        run_signal(ctx)
    elif kind == 'trial-file':
        run_trial_file(ctx)
    elif kind == 'kwargs-reuse':
        run_kwargs_reuse(ctx)
    elif kind == 'initials':
        run_initials(ctx, only=[c])
    elif kind == 'static':
        static_scan(ctx)
    else:
        ctx.notes.append('replay file has no directly replayable input: re-running the full check')
        run(ctx)
