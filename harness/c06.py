"""C06 — a trial's result never depends on earlier trials or evaluations.

Correspondence: histories of {initialise trial A/B/C, evaluate p/q/r/far,
change source, second derivative} on the REAL objects
  TrialDataManager (with / without source, pre-selection and static data fields),
  SignalMultiDimGridPDFSet + Linear1D / Parabola1DGridManifoldInterpolationMethod,
  Signal/BackgroundMultiDimGridPDF (cache_pd_values on / off),
  SigOverBkgPDFRatio, ZeroSigH0SingleDatasetTCLLHRatio
against coq/model/M_Cache.v evaluated by vm_compute in its free world:
  * trial_data_state_id after every operation (exact),
  * the hit/miss trace: which grid values the manifold function is called for,
    which signal PDFs / the background PDF are really evaluated (counted by a
    counting norm_factor_func) (exact),
  * result kind (value / exception class),
  * outputs: the model's output is the symbolic term naming what the numbers
    were computed from; implementation outputs carrying the same term must be
    numerically identical.
Predicate (independent of the model): the same suffix history on freshly built
objects gives identical numbers."""
import itertools
import math
import os

import numpy as np

from harness import common

GEN_MODULES = ['cache']
MODEL_TARGETS = ['model/M_Cache.vo', 'spec/S_Cache.vo']
PROOF_TARGETS = ['proofs/P_Cache.vo']
LEVEL = 'proof'
RULE = ('op histories up to length 5 over {init A/B/C (equal and different sizes), evaluate in the same grid cell / '
        'adjacent cell / distant cell / outside the PDF grid, change source, second derivative}; trial data managers '
        'without extra fields, with a static field, with a source field, with source+pre-selection+static fields, with a '
        'global-fit-parameter dependent field (plain and is_srcevt_data); PDF '
        'value caching on/off; Linear1D and Parabola1D; a small grid and an MJD-like grid (58000 + k/8); a case is one '
        '(configuration, history), non-trivial when it contains at least one evaluation')
TRUSTED = [
    'Coq 8.16.1 kernel incl. vm_compute (no native_compute)',
    'theorems closed under the global context (no axioms); the grid premise (upper grid point determined by the lower one) '
    'is an explicit hypothesis of T1-T4 and proved for the regenerated ParameterGrid kernels (C06_code_grid)',
    'translator/py2coq.py: reading of the key comparisons, stored keys, key arguments and state-id updates of trialdata.py, '
    'interpolate.py, pdf.py, i3/pdfratio.py, llhratio.py (G_cache.v); np.all/np.any/np.equal/np.not_equal read per element '
    '(one parameter set for all sources); the multi-source reductions are exercised by the interp-multi predicate only',
    'hand model M_Cache.v of the control flow (which cache is consulted / filled when, what initialize_trial / '
    'change_shg_mgr / initialize_for_new_trial touch), validated by this correspondence on the real classes; '
    'initialize_trial is modelled with a NEW events array (no column of a plain global-fit-parameter field yet)',
    'abstract payloads: PDF values, line/parabola coefficients and the LLH formulas are uninterpreted functions of what they '
    'read (trial data, source at initialisation, source data field values, event data snapshot, grid values); the theorems '
    'hold for every interpretation, float rounding included, because equal inputs give equal outputs',
    'modelled, not verified: SigOverBkgPDFRatio/SourceWeightedPDFRatio keep per-call scratch values (_cache_sig_pd, '
    '_cache_R_i, ...) that are overwritten by every get_ratio before get_gradient reads them; one global-fit-parameter '
    'field depending on the interpolation parameter is modelled (several fields / several parameters are the same loop); '
    're-using ONE events array object for several trials and the photospline branch are outside',
    'harness oracle: freshly built objects replaying the minimal history',
]

IMPORTS = ('From Coq Require Import ZArith List. Import ListNotations. Open Scope Z_scope.\n'
           'From Sky Require Import Result M_Cache.\n')

# ----------------------------------------------------------------- worlds
# grid values as integers in units of 1/UNIT
WORLDS = {
    'small': dict(unit=16, lb=0.0, delta=1.0, npts=6,
                  xs={'p': 2.25, 'q': 2.75, 'r': 3.25, 'far': 4.25, 'out': 7.25}),
    'mjd': dict(unit=32, lb=58000.0, delta=0.125, npts=8,
                xs={'p': 58000.28125, 'q': 58000.34375, 'r': 58000.40625, 'far': 58000.65625, 'out': 58001.53125}),
}
FIELDS = {'none': (0, 0, 0), 'stat': (0, 0, 1), 'src': (1, 0, 0), 'all': (1, 1, 1)}
DATA = {
    'A': (1, [1.5, 2.5, 7.25], 10),
    'B': (2, [3.5, 4.5, 0.5], 10),
    'C': (3, [0.25, 9.5, 5.5, 6.125, 2.0], 12),
}
SOURCES = {1: (7, 1.0, 0.3), 2: (8, 2.0, -0.2)}
NS = {'p': 5, 'q': 6, 'r': 5, 'far': 7, 'out': 5}


def world_coq(wn):
    w = WORLDS[wn]
    u = w['unit']
    lb = int(round(w['lb'] * u))
    d = int(round(w['delta'] * u))
    return f'(wfree {common.zlit(lb)} {d} {common.zlit(lb)} {common.zlit(lb + d * (w["npts"] - 1))})'


def cfg_key(c):
    return f"{c['world']}/{c['fields']}/{'cache' if c['cache'] else 'nocache'}/{c['interp']}/{c.get('gfp') or 'nogfp'}{'/reuse' if c.get('reuse') else ''}"


def cfg_coq(c):
    a, b, s = FIELDS[c['fields']]
    g = c.get('gfp')
    return (f"(mkcfg {a} {b} {s} {'true' if c['cache'] else 'false'} {'true' if c['interp'] == 'par' else 'false'} "
            f"{1 if g else 0} {'true' if g == 'srcevt' else 'false'})")


ALL_CFGS = [dict(world=w, fields=f, cache=ca, interp=i, gfp=None)
            for w in ('small', 'mjd') for f in ('none', 'stat', 'src', 'all') for ca in (True, False)
            for i in ('lin', 'par')]
# trial data managers with a global-fit-parameter dependent data field: plain (values in tdm.events) and
# source-event (is_srcevt_data=True, values in the DataField)
GFP_CFGS = [dict(world=w, fields=f, cache=ca, interp=i, gfp=g)
            for g in ('plain', 'srcevt') for w in ('small', 'mjd') for f in ('none', 'all') for ca in (True, False)
            for i in ('lin', 'par')]
# ... and the same with ONE events array object per data set handed to initialize_trial again and again
# (what Analysis.unblind does with data.exp when there is no event selection method)
REUSE_CFGS = [dict(c, reuse=True) for c in GFP_CFGS if c['gfp'] == 'plain' and c['cache']] + \
             [dict(world='small', fields='all', cache=True, interp='lin', gfp=None, reuse=True)]
ALL_CFGS = ALL_CFGS + GFP_CFGS + REUSE_CFGS


# ----------------------------------------------------------------- real objects
class Rig:
    """the real skyllh objects for one configuration, built for source `src`"""

    def __init__(self, c, src):
        from skyllh.core.config import Config
        from skyllh.core.trialdata import TrialDataManager
        from skyllh.core.parameters import Parameter, ParameterModelMapper, ParameterGrid, ParameterSet
        from skyllh.core.binning import BinningDefinition
        from skyllh.core.signalpdf import SignalMultiDimGridPDF, SignalMultiDimGridPDFSet
        from skyllh.core.backgroundpdf import BackgroundMultiDimGridPDF
        from skyllh.core.pdfratio import SigOverBkgPDFRatio
        from skyllh.core.llhratio import ZeroSigH0SingleDatasetTCLLHRatio
        from skyllh.core.interpolate import (Linear1DGridManifoldInterpolationMethod,
                                             Parabola1DGridManifoldInterpolationMethod)
        from skyllh.core.minimizer import Minimizer, LBFGSMinimizerImpl
        self.c = c
        w = WORLDS[c['world']]
        self.unit = w['unit']
        self.cfg = cfg = Config()
        self.trace = trace = []
        self.events_objs = {}
        self.shgs = {k: self._mk_shg(k) for k in SOURCES}
        self.cur = src
        shg = self.shgs[src]
        p_ns = Parameter('ns', 10, 0, 1000)
        p_g = Parameter('gamma', w['lb'] + w['delta'], w['lb'] - 10, w['lb'] + 100)
        self.pmm = pmm = ParameterModelMapper(models=shg.source_list)
        pmm.map_param(p_ns)
        pmm.map_param(p_g, models=shg.source_list)
        self.tdm = tdm = TrialDataManager()
        nsrc, npre, nstat = FIELDS[c['fields']]
        if nsrc:
            tdm.add_source_data_field('src_w', lambda tdm, shg_mgr, pmm: np.array([s.dec for s in shg_mgr.source_list]))
        if npre:
            tdm.add_data_field('pre', lambda tdm, shg_mgr, pmm: tdm.get_data('x') * 2.0, pre_evt_sel=True)
        if nstat:
            tdm.add_data_field('stat', lambda tdm, shg_mgr, pmm:
                               tdm.get_data('x') * 0.01 * (1.0 + shg_mgr.source_list[0].ra))
        gfp = c.get('gfp')
        lb = w['lb']
        if gfp:
            def calc_w(tdm, shg_mgr, pmm, global_fitparams_dict=None):
                trace.append(('G',))
                x = tdm.get_data('x')
                if gfp == 'srcevt':
                    x = np.take(x, tdm.src_evt_idxs[1])
                return x * 0.001 * (global_fitparams_dict['gamma'] - lb + 1.0) + 0.002 * shg_mgr.source_list[0].dec
            tdm.add_data_field('w', calc_w, global_fitparam_names=['gamma'], is_srcevt_data=(gfp == 'srcevt'))
        gridvals = np.array([w['lb'] + k * w['delta'] for k in range(w['npts'])])
        grid = ParameterGrid('gamma', gridvals, delta=w['delta'])
        bx = BinningDefinition('x', np.linspace(0, 10, 11))
        unit = self.unit

        def norm(tag, k):
            def f(pdf, tdm, params_recarray, eventdata, evt_mask=None):
                trace.append(tag)
                n = eventdata.shape[1] if evt_mask is None else int(np.count_nonzero(evt_mask))
                v = np.full((n,), 1.0 + 0.03 * k)
                if nsrc:
                    v = v + 0.1 * tdm.get_data('src_w')[0]
                if nstat:
                    v = v + tdm.get_data('stat')
                if gfp:
                    v = v + tdm.get_data('w')
                return v
            return f
        pdfs = []
        for k, g in enumerate(gridvals):
            data = np.linspace(1.0, 2.0, 11) * (1.0 + 0.1 * k) + 0.05 * np.sin(np.arange(11) * (k + 1))
            pdfs.append(({'gamma': g}, SignalMultiDimGridPDF(
                pmm=pmm, axis_binnings=[bx], pdf_grid_data=data,
                norm_factor_func=norm(('P', int(round(g * unit))), k), cache_pd_values=c['cache'], cfg=cfg)))
        icls = Parabola1DGridManifoldInterpolationMethod if c['interp'] == 'par' else Linear1DGridManifoldInterpolationMethod
        self.sigset = SignalMultiDimGridPDFSet(
            pmm=pmm, param_set=ParameterSet([p_g]), param_grid_set=grid, gridparams_pdfs=pdfs,
            interpol_method_cls=icls, cfg=cfg)
        im = self.sigset._interpol_method
        orig = im.func

        def counting(tdm, eventdata, gridparams_recarray, n_values, **kw):
            trace.append(('F', int(round(float(gridparams_recarray['gamma'][0]) * unit))))
            return orig(tdm=tdm, eventdata=eventdata, gridparams_recarray=gridparams_recarray, n_values=n_values, **kw)
        im.func = counting
        self.bkg = BackgroundMultiDimGridPDF(
            pmm=pmm, axis_binnings=[bx], pdf_grid_data=np.linspace(2.0, 1.0, 11),
            norm_factor_func=norm(('B',), 7), cache_pd_values=c['cache'], cfg=cfg)
        ratio = SigOverBkgPDFRatio(sig_pdf=self.sigset, bkg_pdf=self.bkg, cfg=cfg)
        self.llh = ZeroSigH0SingleDatasetTCLLHRatio(
            pmm=pmm, minimizer=Minimizer(LBFGSMinimizerImpl(cfg=cfg)), shg_mgr=shg, tdm=tdm, pdfratio=ratio, cfg=cfg)

    def _mk_shg(self, k):
        from skyllh.core.source_hypo_grouping import SourceHypoGroupManager, SourceHypoGroup
        from skyllh.core.source_model import PointLikeSource
        from skyllh.core.flux_model import PowerLawEnergyFluxProfile, SteadyPointlikeFFM
        (_, ra, dec) = SOURCES[k]
        src = PointLikeSource(name='s', ra=ra, dec=dec)
        fm = SteadyPointlikeFFM(Phi0=1, energy_profile=PowerLawEnergyFluxProfile(E0=1e3, gamma=2, cfg=self.cfg), cfg=self.cfg)
        return SourceHypoGroupManager(SourceHypoGroup(sources=src, fluxmodel=fm, detsigyield_builders=[], sig_gen_method=None))

    def do(self, op):
        """returns the canonical observation of one operation"""
        from skyllh.core.storage import DataFieldRecordArray as DFRA
        del self.trace[:]
        kind = op[0]
        try:
            if kind == 'init':
                (_, xs, n) = DATA[op[1]]
                if self.c.get('reuse'):
                    if op[1] not in self.events_objs:
                        self.events_objs[op[1]] = DFRA(np.array([(x,) for x in xs], dtype=[('x', np.float64)]))
                    ev = self.events_objs[op[1]]
                else:
                    ev = DFRA(np.array([(x,) for x in xs], dtype=[('x', np.float64)]))
                self.tdm.initialize_trial(self.shgs[self.cur], self.pmm, ev, n_events=n)
                self.llh.initialize_for_new_trial()
                return ['none']
            if kind == 'src':
                self.cur = op[1]
                self.llh.change_shg_mgr(self.shgs[op[1]])
                return ['none']
            if kind == 'eval':
                x = WORLDS[self.c['world']]['xs'][op[1]]
                (ll, grads) = self.llh.evaluate(np.array([float(NS[op[1]]), x]))
                return ['eval', 'Ok', [float(ll)] + [float(g) for g in grads]]
            if kind == 'ns2':
                return ['ns2', 'Ok', [float(self.llh.calculate_ns_grad2(float(op[1])))]]
        except Exception as ex:   # the exception class is the observation
            return [kind if kind in ('eval', 'ns2') else 'none', 'Err', type(ex).__name__]
        raise ValueError(op)


def op_coq(c, op):
    w = WORLDS[c['world']]
    if op[0] == 'init':
        return f'InitTrial W {DATA[op[1]][0]}'
    if op[0] == 'src':
        return f'ChangeSource W {SOURCES[op[1]][0]}'
    if op[0] == 'eval':
        return f'Evaluate W {NS[op[1]]} {int(round(w["xs"][op[1]] * w["unit"]))}'
    if op[0] == 'ns2':
        return f'NsGrad2 W {op[1]}'
    raise ValueError(op)


def history_coq(c, hist):
    ops = '; '.join(op_coq(c, o) for o in hist)
    cc = cfg_coq(c)
    return f'let W := {world_coq(c["world"])} in run W {cc} (init W {cc} {SOURCES[1][0]}) [{ops}]'


def canon_model_step(v):
    """(obs, trace, sid) as printed by Coq -> canonical"""
    (ob, tr, sid) = v
    if ob[0] == 'ONone':
        o = ['none']
    else:
        kind = 'eval' if ob[0] == 'OEval' else 'ns2'
        r = ob[-1]
        if r[0] == 'Ok':
            o = [kind, 'Ok', tuple(r[1])]
        else:
            o = [kind, 'Err', r[1]]
    t = []
    for e in tr:
        if e == 'TB':
            t.append(('B',))
        elif e == 'TG':
            t.append(('G',))
        elif e[0] == 'TF':
            t.append(('F', e[1]))
        else:
            t.append(('P', e[1]))
    return o, t, sid


def close(a, b):
    return len(a) == len(b) and all(
        (math.isnan(x) and math.isnan(y)) or abs(x - y) <= 1e-11 * (abs(x) + abs(y)) + 1e-13 for x, y in zip(a, b))


# ----------------------------------------------------------------- fresh-object oracle
class Oracle:
    """what freshly built objects return for the minimal history"""

    def __init__(self):
        self.memo = {}

    def eval(self, c, src, d, x):
        k = (cfg_key(c), src, d, 'e', x)
        if k not in self.memo:
            r = Rig(c, src)
            r.do(('init', d))
            self.memo[k] = r.do(('eval', x))
        return self.memo[k]

    def ns2(self, c, src, d, x, n):
        k = (cfg_key(c), src, d, 'n', x, n)
        if k not in self.memo:
            r = Rig(c, src)
            r.do(('init', d))
            if x is not None:
                r.do(('eval', x))
            self.memo[k] = r.do(('ns2', n))
        return self.memo[k]


def same_obs(a, b):
    if a[:2] != b[:2]:
        return False
    if a[1] == 'Err':
        return a[2] == b[2]
    return close(a[2], b[2])


def run_history(ctx, c, hist, oracle, groups, model_exprs, checks):
    """run one history on freshly built real objects, evaluate the predicate,
    queue the model expression"""
    rig = Rig(c, 1)
    cur_src, data, src_at_init, last_ok, last_failed = 1, None, None, None, False
    steps = []
    for i, op in enumerate(hist):
        ob = rig.do(op)
        steps.append((ob, list(rig.trace), int(rig.tdm.trial_data_state_id)))
        if op[0] == 'init':
            data, src_at_init, last_ok, last_failed = op[1], cur_src, None, False
        elif op[0] == 'src':
            cur_src = op[1]
        elif op[0] == 'eval':
            ctx.count('eval:' + op[1])
            if ob[1] == 'Ok':
                last_ok, last_failed = op[1], False
            else:
                last_failed = True
                ctx.count('eval-raises:' + ob[2])
            if data is not None and src_at_init == cur_src:
                want = oracle.eval(c, cur_src, data, op[1])
                if not same_obs(ob, want):
                    ctx.violation('ZeroSigH0SingleDatasetTCLLHRatio.evaluate', 'depends-on-history',
                                  f'step {i} of {hist}: used objects give {ob}, freshly built objects give {want}',
                                  case={'cfg': c, 'history': [list(o) for o in hist], 'step': i}, impl=ob, model=want,
                                  predicate='evaluate after a history == evaluate on freshly built objects '
                                            '[init trial d; evaluate p]')
            else:
                ctx.count('eval-outside-protocol')
        elif op[0] == 'ns2':
            ctx.count('ns2')
            if data is None:
                want = ['ns2', 'Err', 'RuntimeError']
            elif src_at_init != cur_src or last_failed:
                want = None
                ctx.count('ns2-outside-guard')
            else:
                want = oracle.ns2(c, cur_src, data, last_ok, op[1])
            if want is not None and not same_obs(ob, want):
                ctx.violation('ZeroSigH0SingleDatasetTCLLHRatio.calculate_ns_grad2', 'depends-on-history',
                              f'step {i} of {hist}: used objects give {ob}, freshly built objects give {want}',
                              case={'cfg': c, 'history': [list(o) for o in hist], 'step': i}, impl=ob, model=want,
                              predicate='calculate_ns_grad2 after a history == on freshly built objects '
                                        '[init trial d; evaluate p; calculate_ns_grad2]')
    model_exprs.append(history_coq(c, hist))
    checks.append((c, hist, steps))


def compare(ctx, checks, vals, groups):
    for (c, hist, steps), v in zip(checks, vals):
        ctx.corr_cases += 1
        case = {'cfg': c, 'history': [list(o) for o in hist]}
        try:
            msteps = [canon_model_step(s) for s in v]
        except Exception as ex:
            ctx.disagree('cache.history', case, 'n/a', ['unparsed', repr(v)[:300], str(ex)])
            continue
        if len(msteps) != len(steps):
            ctx.disagree('cache.history', case, len(steps), len(msteps))
            continue
        for i, ((ob, tr, sid), (mo, mt, msid)) in enumerate(zip(steps, msteps)):
            if sid != msid:
                ctx.disagree('cache.state_id', dict(case, step=i), sid, msid, 'trial_data_state_id differs')
                break
            if tr != mt:
                ctx.disagree('cache.trace', dict(case, step=i), tr, mt, 'hit/miss trace differs')
                break
            if ob[:2] != mo[:2] or (ob[0] != 'none' and ob[1] == 'Err' and ob[2] != mo[2]):
                ctx.disagree('cache.result_kind', dict(case, step=i), ob, mo[:2] + ([mo[2]] if mo[1:2] == ['Err'] else []),
                             'value / exception differs')
                break
            if ob[0] != 'none' and ob[1] == 'Ok':
                gk = (cfg_key(c), ob[0], mo[2])
                if gk in groups:
                    if not close(groups[gk][0], ob[2]):
                        ctx.disagree('cache.output', dict(case, step=i, other=groups[gk][1]), ob[2], groups[gk][0],
                                     'two outputs that the model computes from the same inputs differ')
                        break
                else:
                    groups[gk] = (ob[2], [list(o) for o in hist])


# ----------------------------------------------------------------- interp-multi predicate
def interp_multi(ctx):
    """Linear1D / Parabola1D with TWO sources and per-source parameter values:
    the np.all / np.any reductions of the key comparison.  Predicate only."""
    from skyllh.core.trialdata import TrialDataManager
    from skyllh.core.storage import DataFieldRecordArray as DFRA
    from skyllh.core.parameters import ParameterGrid
    from skyllh.core.interpolate import (Linear1DGridManifoldInterpolationMethod,
                                         Parabola1DGridManifoldInterpolationMethod)

    class SHG:
        n_sources = 2
    vals = [2.25, 2.75, 3.25, 4.25]
    pairs = [(a, b) for a in vals for b in vals]
    n = 0
    for cls in (Linear1DGridManifoldInterpolationMethod, Parabola1DGridManifoldInterpolationMethod):
        for wn in ('small', 'mjd'):
            w = WORLDS[wn]
            grid = ParameterGrid('gamma', np.array([w['lb'] + k * w['delta'] for k in range(w['npts'])]), delta=w['delta'])

            def func(tdm, eventdata, gridparams_recarray, n_values):
                g = tdm.broadcast_sources_array_to_values_array(gridparams_recarray['gamma'])
                return np.sin(g - w['lb']) * (1.0 + eventdata[0]) + (g - w['lb']) ** 2
            tdm = TrialDataManager()
            ev = DFRA(np.array([(0.5,), (1.5,), (2.5,)], dtype=[('x', np.float64)]))
            tdm.initialize_trial(SHG(), None, ev)
            eventdata = np.array([np.take(tdm.get_data('x'), tdm.src_evt_idxs[1])])
            seqs = list(itertools.product(pairs, repeat=2)) if ctx.thorough() else \
                [tuple(ctx.rng.choice(pairs) for _ in range(3)) for _ in range(60)]
            for seq in seqs:
                used = cls(func=func, param_grid_set=grid)
                for j, (a, b) in enumerate(seq):
                    sa = w['lb'] + (a if wn == 'small' else a * w['delta'])
                    sb = w['lb'] + (b if wn == 'small' else b * w['delta'])
                    rec = np.array([(sa,), (sb,)], dtype=[('gamma', np.float64)])
                    (v1, g1) = used(tdm=tdm, eventdata=eventdata, params_recarray=rec)
                    (v2, g2) = cls(func=func, param_grid_set=grid)(tdm=tdm, eventdata=eventdata, params_recarray=rec)
                    n += 1
                    if not (close(list(v1), list(v2)) and close(list(np.ravel(g1)), list(np.ravel(g2)))):
                        ctx.violation(cls.__name__ + '.__call__', 'depends-on-history',
                                      f'two sources, parameter sequence {seq}, step {j}: used instance differs from a fresh one',
                                      case={'interp_multi': True, 'cls': cls.__name__, 'world': wn, 'seq': [list(p) for p in seq], 'step': j},
                                      impl=[list(v1)], model=[list(v2)],
                                      predicate='interpolation on a used instance == on a fresh instance')
    ctx.count('interp-multi-evaluations', n)


# ----------------------------------------------------------------- histories
ALPHABET = [('init', 'A'), ('init', 'B'), ('init', 'C'), ('eval', 'p'), ('eval', 'q'), ('eval', 'r'),
            ('eval', 'far'), ('src', 2), ('ns2', 5)]
SMALL_ALPHABET = [('init', 'A'), ('init', 'B'), ('eval', 'p'), ('eval', 'r'), ('src', 2), ('ns2', 5)]
EXTRA = [('src', 1), ('eval', 'out'), ('ns2', 6)]


def corpus_histories():
    """the histories of the defects repaired in /repo (kept so they are reported if they return)"""
    return [
        # b6f7cf9: state id not changed by initialize_trial without static data fields
        [('init', 'A'), ('eval', 'p'), ('init', 'B'), ('eval', 'p')],
        [('init', 'A'), ('eval', 'p'), ('init', 'B'), ('eval', 'q'), ('ns2', 5)],
        # 1fcff1d: np.isclose key comparison (adjacent cells of an MJD-like grid)
        [('init', 'A'), ('eval', 'p'), ('eval', 'r'), ('eval', 'far'), ('eval', 'p')],
        # 42bfd87: second derivative from the previous trial's ns-gradients
        [('init', 'A'), ('eval', 'p'), ('init', 'B'), ('ns2', 5)],
        [('init', 'A'), ('eval', 'p'), ('init', 'C'), ('ns2', 5), ('eval', 'q')],
        # source change followed by a new trial
        [('init', 'A'), ('eval', 'p'), ('src', 2), ('init', 'A'), ('eval', 'p')],
        [('eval', 'p'), ('ns2', 5), ('init', 'A'), ('ns2', 5), ('eval', 'out')],
        # DataField memo: trial A's last point == trial B's first point, equal (A, B) and different (A, C) event counts
        [('init', 'A'), ('eval', 'q'), ('eval', 'p'), ('init', 'B'), ('eval', 'p')],
        [('init', 'A'), ('eval', 'p'), ('init', 'C'), ('eval', 'p'), ('ns2', 5)],
        [('init', 'B'), ('eval', 'r'), ('eval', 'r'), ('init', 'A'), ('eval', 'r')],
        [('init', 'A'), ('eval', 'p'), ('eval', 'p'), ('eval', 'q'), ('eval', 'p')],
        [('init', 'A'), ('eval', 'p'), ('eval', 'out'), ('ns2', 5), ('eval', 'p')],
    ]


def random_history(rng):
    n = rng.choice([2, 3, 4, 4, 5, 5, 5])
    h = []
    for i in range(n):
        r = rng.random()
        if i == 0 and r < 0.7:
            h.append(rng.choice(ALPHABET[:3]))
        elif r < 0.08:
            h.append(rng.choice(EXTRA))
        else:
            h.append(rng.choice(ALPHABET))
    return h


def gen_cases(ctx):
    rng = ctx.rng
    cases = []
    for c in ALL_CFGS:
        for h in corpus_histories():
            cases.append((c, h))
    if ctx.thorough():
        # exhaustive: all histories up to length 4 over the full alphabet (9 ops) for 4 configurations,
        # all histories of length 5 over the reduced alphabet (6 ops) for 2 configurations
        def cf(w, f, ca, i, g=None):
            return dict(world=w, fields=f, cache=ca, interp=i, gfp=g)
        for c in (cf('small', 'none', True, 'lin'), cf('mjd', 'none', True, 'par'),
                  cf('small', 'all', True, 'par'), cf('mjd', 'all', True, 'lin'),
                  cf('small', 'none', True, 'lin', 'srcevt'), cf('mjd', 'all', True, 'par', 'plain')):
            for n in (1, 2, 3, 4):
                for h in itertools.product(ALPHABET, repeat=n):
                    cases.append((c, list(h)))
        for c in (cf('mjd', 'src', True, 'lin'), cf('small', 'stat', False, 'par')):
            for h in itertools.product(SMALL_ALPHABET, repeat=5):
                cases.append((c, list(h)))
        nrand = 5000
    else:
        nrand = 900
    for _ in range(nrand):
        cases.append((rng.choice(ALL_CFGS), random_history(rng)))
    return cases


class _MiniCtx:
    """what run_history needs of a Ctx, picklable results (worker processes)"""

    def __init__(self):
        self.stats = {}
        self.viol = []

    def count(self, key, n=1):
        self.stats[key] = self.stats.get(key, 0) + n

    def violation(self, site, kind, detail, **kw):
        self.viol.append((site, kind, detail, kw))


def _worker(chunk):
    mc, oracle, out = _MiniCtx(), Oracle(), []
    for (c, h) in chunk:
        me, ck = [], []
        run_history(mc, c, h, oracle, None, me, ck)
        out.append(ck[0][2])
    return out, mc.stats, mc.viol, len(oracle.memo)


def run(ctx):
    groups = {}
    cases = gen_cases(ctx)
    uniq, seen = [], set()
    for (c, h) in cases:
        key = (cfg_key(c), tuple(h))
        if key in seen:
            continue
        seen.add(key)
        uniq.append((c, h))
        ctx.case({'cfg': cfg_key(c), 'h': h}, nontrivial=any(o[0] == 'eval' for o in h))
        ctx.count('cfg:' + cfg_key(c))
        ctx.count('len:%d' % len(h))
    ctx.sample({'cfg': cfg_key(uniq[-1][0]), 'history': uniq[-1][1]})
    ctx.sample({'cfg': cfg_key(uniq[0][0]), 'history': uniq[0][1]})
    # the implementation side: worker processes (each history builds its own objects)
    nproc = 6 if ctx.thorough() else 2
    size = max(50, min(600, len(uniq) // (nproc * 4) + 1))
    chunks = [uniq[i:i + size] for i in range(0, len(uniq), size)]
    model_exprs, checks, nref = [], [], 0
    import concurrent.futures
    import multiprocessing
    with concurrent.futures.ProcessPoolExecutor(max_workers=nproc, mp_context=multiprocessing.get_context('fork')) as ex:
        for chunk, (out, stats, viol, nmemo) in zip(chunks, ex.map(_worker, chunks)):
            nref += nmemo
            for k, v in stats.items():
                ctx.count(k, v)
            for (site, kind, detail, kw) in viol:
                ctx.violation(site, kind, detail, **kw)
            for (c, h), steps in zip(chunk, out):
                model_exprs.append(history_coq(c, h))
                checks.append((c, h, steps))
    interp_multi(ctx)
    ctx.count('fresh-object-references', nref)
    if ctx.model_ok:
        try:
            vals = common.coq_eval('c06', IMPORTS, model_exprs)
            compare(ctx, checks, vals, groups)
            ctx.count('output-groups', len(groups))
        except RuntimeError as ex:
            ctx.broken.append({'kind': 'model-eval', 'error': str(ex)[:1500]})
    else:
        ctx.notes.append('model did not build: implementation-only predicates were evaluated')


def replay(ctx, rp):
    c = rp.get('case') or {}
    if c.get('interp_multi'):
        return interp_multi(ctx)
    if not c.get('history'):
        ctx.notes.append('replay file has no concrete input (broken obligation): re-running the full check')
        return run(ctx)
    cfgd = c['cfg']
    hist = [tuple(o) for o in c['history']]
    oracle, groups, model_exprs, checks = Oracle(), {}, [], []
    ctx.case({'cfg': cfg_key(cfgd), 'h': hist})
    run_history(ctx, cfgd, hist, oracle, groups, model_exprs, checks)
    if c.get('other'):
        run_history(ctx, cfgd, [tuple(o) for o in c['other']], oracle, groups, model_exprs, checks)
    if ctx.model_ok:
        compare(ctx, checks, common.coq_eval('c06r', IMPORTS, model_exprs), groups)
