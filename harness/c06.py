"""C06 — a trial's result never depends on earlier trials or evaluations.

Correspondence: histories of {initialise trial A/B/C, evaluate p/q/r/far,
change source, second derivative} on the REAL objects
  TrialDataManager (with / without source, pre-selection and static data fields),
  SignalMultiDimGridPDFSet + Linear1D / Parabola1DGridManifoldInterpolationMethod,
  Signal/BackgroundMultiDimGridPDF (cache_pd_values on / off),
  SigOverBkgPDFRatio, ZeroSigH0SingleDatasetTCLLHRatio
against coq/model/M_Cache.v evaluated by vm_compute in its free world:
  * trial_data_state_id after every operation (exact),
  * the hit/miss trace: which grid values the manifold function is called for,
    which signal PDFs / the background PDF are really evaluated (counted by a
    counting norm_factor_func) (exact),
  * result kind (value / exception class),
  * outputs: the model's output is the symbolic term naming what the numbers
    were computed from; implementation outputs carrying the same term must be
    numerically identical.
Predicate (independent of the model): the same suffix history on freshly built
objects gives identical numbers."""
import itertools
import math
import os

import numpy as np

from harness import common

GEN_MODULES = ['cache']
MODEL_TARGETS = ['model/M_Cache.vo', 'spec/S_Cache.vo']
PROOF_TARGETS = ['proofs/P_Cache.vo']
LEVEL = 'proof'
RULE = ('op histories up to length 5 over {init A/B/C (equal and different sizes), evaluate in the same grid cell / '
        'adjacent cell / distant cell / outside the PDF grid, change source, second derivative}; trial data managers '
        'without extra fields, with a static field, with a source field, with source+pre-selection+static fields, with a '
        'global-fit-parameter dependent field (plain and is_srcevt_data) and with two such fields on different parameters; '
        'SigOverBkgPDFRatio and SplinedI3EnergySigSetOverBkgPDFRatio; PDF '
        'value caching on/off; Linear1D and Parabola1D; a small grid and an MJD-like grid (58000 + k/8); single dataset, two '
        'datasets (MultiDatasetTCLLHRatio) and the ns-profile function (NsProfileMultiDatasetTCLLHRatio, mean_n_sig_0 0 and 3); '
        'maximize + Wilks test statistic as further operations; two instances driven alternately; a case is one '
        '(configuration, history), non-trivial when it contains at least one evaluation')
TRUSTED = [
    'Coq 8.16.1 kernel incl. vm_compute (no native_compute)',
    'theorems closed under the global context (no axioms); the grid premise (upper grid point determined by the lower one) '
    'is an explicit hypothesis of T1-T4 and proved for the regenerated ParameterGrid kernels (C06_code_grid)',
    'translator/py2coq.py: reading of the key comparisons, stored keys, key arguments and state-id updates of trialdata.py, '
    'interpolate.py, pdf.py, i3/pdfratio.py, llhratio.py (G_cache.v); np.all/np.any/np.equal/np.not_equal read per element '
    '(one parameter set for all sources); the multi-source reductions are exercised by the interp-multi predicate only',
    'hand model M_Cache.v of the control flow (which cache is consulted / filled when, what initialize_trial / '
    'change_shg_mgr / initialize_for_new_trial touch), validated by this correspondence on the real classes; '
    'initialize_trial is modelled with a NEW events array (no column of a plain global-fit-parameter field yet)',
    'abstract payloads: PDF values, line/parabola coefficients and the LLH formulas are uninterpreted functions of what they '
    'read (trial data, source at initialisation, source data field values, event data snapshot, grid values); the theorems '
    'hold for every interpretation, float rounding included, because equal inputs give equal outputs',
    'modelled, not verified: SigOverBkgPDFRatio/SourceWeightedPDFRatio keep per-call scratch values (_cache_sig_pd, '
    '_cache_R_i, ...) that are overwritten by every get_ratio before get_gradient reads them; up to two global-fit-parameter '
    'fields (interpolation parameter; ns, registered last) are modelled; '
    're-using ONE events array object for several trials and the photospline branch are outside',
    'maximize / test statistic: the minimiser is an oracle in the theorem (any deterministic strategy); the real L-BFGS-B '
    'runs are additionally compared with fresh objects by the predicate',
    'i3 PDF ratio: the class is instantiated without its constructor (spline table replaced by counting callables); its '
    'event data array, rebuilt at every call, is modelled by the snapshot taken at initialisation (it is a function of it)',
    'two-dataset machine: the dataset weight factors f are modelled as a function of the source hypothesis (constant '
    'detector signal yields in the correspondence), exactly two datasets; maximize and the test statistic are not in the model '
    'of the two-dataset machine: there they are checked by the fresh-object predicate only',
    'harness oracle: freshly built objects replaying the minimal history; generic probes (repeat, shared argument buffer, '
    'arguments / constructor arguments unchanged, returned arrays owned by the caller, two instances alternately)',
]

IMPORTS = ('From Coq Require Import ZArith List. Import ListNotations. Open Scope Z_scope.\n'
           'From Sky Require Import Result M_Cache.\n')

# ----------------------------------------------------------------- worlds
# grid values as integers in units of 1/UNIT
WORLDS = {
    'small': dict(unit=16, lb=0.0, delta=1.0, npts=6,
                  xs={'p': 2.25, 'q': 2.75, 'r': 3.25, 'far': 4.25, 'out': 7.25}),
    'mjd': dict(unit=32, lb=58000.0, delta=0.125, npts=8,
                xs={'p': 58000.28125, 'q': 58000.34375, 'r': 58000.40625, 'far': 58000.65625, 'out': 58001.53125}),
}
FIELDS = {'none': (0, 0, 0), 'stat': (0, 0, 1), 'src': (1, 0, 0), 'all': (1, 1, 1)}
DATA = {
    'A': (1, [1.5, 2.5, 7.25], 10),
    'B': (2, [3.5, 4.5, 0.5], 10),
    'C': (3, [0.25, 9.5, 5.5, 6.125, 2.0], 12),
    # events with x in [8, 10], where the background PDF of the `bkgzero` configurations is exactly zero
    'D': (4, [1.5, 9.5, 7.25], 10),
    'E': (5, [9.0, 2.5, 8.5], 10),
}
SOURCES = {1: (7, 1.0, 0.3), 2: (8, 2.0, -0.2)}
NS = {'p': 5, 'q': 6, 'r': 5, 'far': 7, 'out': 5}


def world_coq(wn):
    w = WORLDS[wn]
    u = w['unit']
    lb = int(round(w['lb'] * u))
    d = int(round(w['delta'] * u))
    return f'(wfree {common.zlit(lb)} {d} {common.zlit(lb)} {common.zlit(lb + d * (w["npts"] - 1))})'


def multi_key(c):
    m = c.get('multi')
    return '' if not m else f"/multi-{'profile' if m['profile'] else 'plain'}-ns0={m['ns0']}"


def cfg_key(c):
    return f"{c['world']}/{c['fields']}/{'cache' if c['cache'] else 'nocache'}/{c['interp']}/{c.get('gfp') or 'nogfp'}{'/reuse' if c.get('reuse') else ''}{'/i3' if c.get('i3') else ''}{'/chain' if c.get('chain') else ''}{'/bkgzero' if c.get('bkgzero') else ''}{multi_key(c)}"


def cfg_coq(c):
    a, b, s = FIELDS[c['fields']]
    g = c.get('gfp')
    return (f"(mkcfg {a} {b} {s} {'true' if c['cache'] else 'false'} {'true' if c['interp'] == 'par' else 'false'} "
            f"{0 if not g else (2 if g.startswith('two') else 1)} {'true' if g and g.endswith('srcevt') else 'false'})")


ALL_CFGS = [dict(world=w, fields=f, cache=ca, interp=i, gfp=None)
            for w in ('small', 'mjd') for f in ('none', 'stat', 'src', 'all') for ca in (True, False)
            for i in ('lin', 'par')]
# trial data managers with a global-fit-parameter dependent data field: plain (values in tdm.events) and
# source-event (is_srcevt_data=True, values in the DataField)
GFP_CFGS = [dict(world=w, fields=f, cache=ca, interp=i, gfp=g)
            for g in ('plain', 'srcevt') for w in ('small', 'mjd') for f in ('none', 'all') for ca in (True, False)
            for i in ('lin', 'par')]
# ... and the same with ONE events array object per data set handed to initialize_trial again and again
# (what Analysis.unblind does with data.exp when there is no event selection method)
REUSE_CFGS = [dict(c, reuse=True) for c in GFP_CFGS if c['gfp'] == 'plain' and c['cache']] + \
             [dict(world='small', fields='all', cache=True, interp='lin', gfp=None, reuse=True)]
# two such fields on DIFFERENT global parameters (gamma first, ns registered last)
GFP2_CFGS = [dict(world=w, fields=f, cache=True, interp=i, gfp=g)
             for g in ('two-plain', 'two-srcevt') for w in ('small', 'mjd') for f in ('none', 'all') for i in ('lin', 'par')]
# SplinedI3EnergySigSetOverBkgPDFRatio (its own ratio cache) in place of the SigOverBkgPDFRatio
I3_CFGS = [dict(world=w, fields=f, cache=False, interp=i, gfp=g, i3=True)
           for (w, f, i, g) in (('small', 'none', 'lin', None), ('mjd', 'none', 'par', None), ('small', 'stat', 'par', None),
                                ('mjd', 'stat', 'lin', None), ('small', 'none', 'lin', 'srcevt'), ('mjd', 'stat', 'par', 'srcevt'))]
ALL_CFGS = ALL_CFGS + GFP_CFGS + REUSE_CFGS + GFP2_CFGS + I3_CFGS
# two datasets: MultiDatasetTCLLHRatio over two single-dataset functions, plain (fit parameters ns and gamma) or wrapped
# by NsProfileMultiDatasetTCLLHRatio (only ns floats, gamma fixed) with mean_n_sig_0 in {0, 3}
MULTI_CFGS = [dict(world=w, fields=f, cache=ca, interp=i, gfp=(None if pr else g), multi=dict(profile=pr, ns0=n0))
              for (pr, n0) in ((False, 0), (True, 0), (True, 3))
              for (w, f, ca, i, g) in (('small', 'none', True, 'lin', None), ('mjd', 'all', True, 'par', None),
                                       ('small', 'stat', False, 'lin', 'srcevt'), ('mjd', 'src', True, 'lin', None))]


# ----------------------------------------------------------------- real objects
class Rig:
    """the real skyllh objects for one configuration, built for source `src`"""

    def __init__(self, c, src, shared=None, ds=0):
        from skyllh.core.config import Config
        from skyllh.core.trialdata import TrialDataManager
        from skyllh.core.parameters import Parameter, ParameterModelMapper, ParameterGrid, ParameterSet
        from skyllh.core.binning import BinningDefinition
        from skyllh.core.signalpdf import SignalMultiDimGridPDF, SignalMultiDimGridPDFSet
        from skyllh.core.backgroundpdf import BackgroundMultiDimGridPDF
        from skyllh.core.pdfratio import SigOverBkgPDFRatio
        from skyllh.core.llhratio import ZeroSigH0SingleDatasetTCLLHRatio
        from skyllh.core.interpolate import (Linear1DGridManifoldInterpolationMethod,
                                             Parabola1DGridManifoldInterpolationMethod)
        from skyllh.core.minimizer import Minimizer, LBFGSMinimizerImpl
        self.c = c
        w = WORLDS[c['world']]
        self.unit = w['unit']
        self.ds = ds
        self.events_objs = {}
        self.cur = src
        self.kept = []        # (site, returned ndarray, copy) of earlier calls: returned values are owned by the caller
        if shared is None:
            self.cfg = cfg = Config()
            self.trace = trace = []
            self.shgs = {k: self._mk_shg(k) for k in SOURCES}
            shg = self.shgs[src]
            p_ns = Parameter('ns', 1, 0, 8)
            fixed_gamma = bool(c.get('multi') and c['multi']['profile'])
            if fixed_gamma:
                p_g = Parameter('gamma', w['xs']['p'], isfixed=True)
            else:
                # the minimiser stays where the PDF set has PDFs for the neighbouring grid values
                p_g = Parameter('gamma', w['lb'] + 2.3 * w['delta'], w['lb'] + 1.2 * w['delta'],
                                w['lb'] + (w['npts'] - 2.2) * w['delta'])
            self.p_g = p_g
            self.pmm = pmm = ParameterModelMapper(models=shg.source_list)
            pmm.map_param(p_ns)
            pmm.map_param(p_g, models=shg.source_list)
        else:
            self.cfg = cfg = shared.cfg
            self.trace = trace = shared.trace
            self.shgs = shared.shgs
            shg = self.shgs[src]
            self.pmm = pmm = shared.pmm
            self.p_g = p_g = shared.p_g
        self.tdm = tdm = TrialDataManager()
        nsrc, npre, nstat = FIELDS[c['fields']]
        if nsrc:
            tdm.add_source_data_field('src_w', lambda tdm, shg_mgr, pmm: np.array([s.dec for s in shg_mgr.source_list]))
        if npre:
            tdm.add_data_field('pre', lambda tdm, shg_mgr, pmm: tdm.get_data('x') * 2.0, pre_evt_sel=True)
        if nstat:
            tdm.add_data_field('stat', lambda tdm, shg_mgr, pmm:
                               tdm.get_data('x') * 0.01 * (1.0 + shg_mgr.source_list[0].ra))
        gfp = c.get('gfp')
        lb = w['lb']
        if gfp:
            def calc_w(tdm, shg_mgr, pmm, global_fitparams_dict=None):
                trace.append(('G',))
                x = tdm.get_data('x')
                if gfp.endswith('srcevt'):
                    x = np.take(x, tdm.src_evt_idxs[1])
                return x * 0.001 * (global_fitparams_dict['gamma'] - lb + 1.0) + 0.002 * shg_mgr.source_list[0].dec
            tdm.add_data_field('w', calc_w, global_fitparam_names=['gamma'], is_srcevt_data=gfp.endswith('srcevt'))
            if gfp.startswith('two'):
                def calc_v(tdm, shg_mgr, pmm, global_fitparams_dict=None):
                    trace.append(('G2',))
                    x = tdm.get_data('x')
                    if gfp.endswith('srcevt'):
                        x = np.take(x, tdm.src_evt_idxs[1])
                    return np.cos(x) * 0.0007 * global_fitparams_dict['ns'] + 0.001 * shg_mgr.source_list[0].ra
                tdm.add_data_field('v', calc_v, global_fitparam_names=['ns'], is_srcevt_data=gfp.endswith('srcevt'))
        gridvals = np.array([w['lb'] + k * w['delta'] for k in range(w['npts'])])
        grid = ParameterGrid('gamma', gridvals, delta=w['delta'])
        bx = BinningDefinition('x', np.linspace(0, 10, 11))
        unit = self.unit

        def norm(tag, k):
            def f(pdf, tdm, params_recarray, eventdata, evt_mask=None):
                trace.append(tag)
                n = eventdata.shape[1] if evt_mask is None else int(np.count_nonzero(evt_mask))
                v = np.full((n,), 1.0 + 0.03 * k)
                if nsrc:
                    v = v + 0.1 * tdm.get_data('src_w')[0]
                if nstat:
                    v = v + tdm.get_data('stat')
                if gfp:
                    v = v + tdm.get_data('w')
                    if gfp.startswith('two'):
                        v = v + tdm.get_data('v')
                return v
            return f
        pdfs = []
        self.ctor_args = [('ParameterGrid', gridvals, gridvals.copy())]
        for k, g in enumerate(gridvals):
            data = np.linspace(1.0, 2.0, 11) * (1.0 + 0.1 * k + 0.07 * ds) + 0.05 * np.sin(np.arange(11) * (k + 1 + ds))
            self.ctor_args.append(('SignalMultiDimGridPDF', data, data.copy()))
            pdfs.append(({'gamma': g}, SignalMultiDimGridPDF(
                pmm=pmm, axis_binnings=[bx], pdf_grid_data=data,
                norm_factor_func=norm(('P', int(round(g * unit))), k), cache_pd_values=c['cache'], cfg=cfg)))
        icls = Parabola1DGridManifoldInterpolationMethod if c['interp'] == 'par' else Linear1DGridManifoldInterpolationMethod
        self.sigset = SignalMultiDimGridPDFSet(
            pmm=pmm, param_set=ParameterSet([p_g]), param_grid_set=grid, gridparams_pdfs=pdfs,
            interpol_method_cls=icls, cfg=cfg)
        im = self.sigset._interpol_method
        orig = im.func

        def counting(tdm, eventdata, gridparams_recarray, n_values, **kw):
            trace.append(('F', int(round(float(gridparams_recarray['gamma'][0]) * unit))))
            return orig(tdm=tdm, eventdata=eventdata, gridparams_recarray=gridparams_recarray, n_values=n_values, **kw)
        im.func = counting
        self.bkg = BackgroundMultiDimGridPDF(
            pmm=pmm, axis_binnings=[bx],
            pdf_grid_data=(np.linspace(2.0, 1.0, 11) * (1.0 + 0.11 * ds)) * (np.arange(11) < 8 if c.get('bkgzero') else 1.0),
            norm_factor_func=norm(('B',), 7), cache_pd_values=c['cache'], cfg=cfg)
        ratio = SigOverBkgPDFRatio(sig_pdf=self.sigset, bkg_pdf=self.bkg, cfg=cfg)
        if c.get('i3'):
            ratio = self._mk_i3_ratio(c, w, grid, gridvals, icls, nstat, gfp)
        self.llh = ZeroSigH0SingleDatasetTCLLHRatio(
            pmm=pmm, minimizer=Minimizer(LBFGSMinimizerImpl(cfg=cfg)), shg_mgr=shg, tdm=tdm, pdfratio=ratio, cfg=cfg)

    def _mk_i3_ratio(self, c, w, grid, gridvals, icls, nstat, gfp):
        """a real SplinedI3EnergySigSetOverBkgPDFRatio whose spline table is replaced by counting callables (its
        constructor needs I3 energy PDF sets): get_ratio / get_gradient / _is_cached / _calculate_ratio_and_grads /
        _evaluate_splines / _create_interpol_params_recarray and the interpolation method are the real code"""
        from skyllh.i3.pdfratio import SplinedI3EnergySigSetOverBkgPDFRatio as I3R
        from skyllh.core.py import make_dict_hash
        trace, unit = self.trace, self.unit

        from skyllh.core.parameters import ParameterGridSet

        class Dummy:
            param_grid_set = ParameterGridSet([grid])

            def initialize_for_new_trial(self, **kw):
                pass

            def assert_is_valid_for_trial_data(self, **kw):
                pass
        r = object.__new__(I3R)
        r._cfg = self.cfg
        r._sig_param_names = ['gamma']
        r._bkg_param_names = []
        r._sig_pdf_set = Dummy()
        r._bkg_pdf = Dummy()
        r._interpol_param_names = ['gamma']
        r._data_field_names = ['x'] + (['stat'] if nstat else []) + (['w'] if gfp else [])
        splines = {}
        for k, g in enumerate(gridvals):
            def spline(pts, k=k, g=g):
                trace.append(('P', int(round(g * unit))))
                return np.log(0.6 + 0.1 * k + 0.04 * pts[:, 0] + (pts[:, 1:].sum(axis=1) if pts.shape[1] > 1 else 0.0))
            splines[make_dict_hash({'gamma': g})] = spline
        r._gridparams_hash_log_ratio_spline_dict = splines

        def counting(tdm, eventdata, gridparams_recarray, n_values):
            trace.append(('F', int(round(float(gridparams_recarray['gamma'][0]) * unit))))
            return r._evaluate_splines(tdm=tdm, eventdata=eventdata, gridparams_recarray=gridparams_recarray, n_values=n_values)
        r._interpolmethod = icls(func=counting, param_grid_set=grid)
        r._cache = r._create_cache(trial_data_state_id=None, interpol_params_recarray=None, ratio=None, grads=None)
        return r

    def _mk_shg(self, k):
        from skyllh.core.source_hypo_grouping import SourceHypoGroupManager, SourceHypoGroup
        from skyllh.core.source_model import PointLikeSource
        from skyllh.core.flux_model import PowerLawEnergyFluxProfile, SteadyPointlikeFFM
        (_, ra, dec) = SOURCES[k]
        src = PointLikeSource(name='s', ra=ra, dec=dec)
        fm = SteadyPointlikeFFM(Phi0=1, energy_profile=PowerLawEnergyFluxProfile(E0=1e3, gamma=2, cfg=self.cfg), cfg=self.cfg)
        return SourceHypoGroupManager(SourceHypoGroup(sources=src, fluxmodel=fm, detsigyield_builders=[], sig_gen_method=None))

    def events_for(self, name):
        """the events array handed to initialize_trial for data set `name` (dataset self.ds of a multi-dataset rig
        gets other values and another size)"""
        from skyllh.core.storage import DataFieldRecordArray as DFRA
        (_, xs, n) = DATA[name]
        xs = [x * (1.0 - 0.08 * self.ds) + 0.3 * self.ds for x in xs] + [4.75] * self.ds

        def mk():
            return DFRA(np.array([(x,) for x in xs], dtype=[('x', np.float64)]))
        if self.c.get('reuse'):
            if name not in self.events_objs:
                self.events_objs[name] = mk()
            ev = self.events_objs[name]
        else:
            ev = mk()
        return ev, np.array(xs, dtype=np.float64), n + 2 * self.ds

    def init_tdm(self, name):
        (ev, xs, n) = self.events_for(name)
        self.tdm.initialize_trial(self.shgs[self.cur], self.pmm, ev, n_events=n)
        self.cur_events = (ev, xs)

    def probe_state(self, site):
        """hardening probes evaluated after every operation: the caller's events array keeps its values; arrays
        returned by earlier calls are unchanged"""
        out = []
        if getattr(self, 'cur_events', None) is not None:
            (ev, xs) = self.cur_events
            if not np.array_equal(np.asarray(ev['x']), xs):
                out.append(('TrialDataManager.events', 'caller-array-modified', f'after {site}: the x column handed to initialize_trial changed'))
        for (s0, arr, cp) in self.kept:
            if not np.array_equal(arr, cp, equal_nan=True):
                out.append((s0, 'returned-array-changed-later', f'after {site}: an array returned by an earlier {s0} call changed'))
        for (s0, arr, cp) in self.ctor_args:
            if not np.array_equal(arr, cp):
                out.append((s0, 'constructor-argument-modified', f'after {site}: an array handed to the {s0} constructor changed'))
        return out

    def keep(self, site, arr):
        if isinstance(arr, np.ndarray):
            for (s0, a0, _) in self.kept:
                if np.shares_memory(a0, arr):
                    self.shared_hits = getattr(self, 'shared_hits', []) + [(site, 'returned-array-shared', f'{site} returned an array sharing memory with one returned by an earlier {s0} call')]
            self.kept = (self.kept + [(site, arr, arr.copy())])[-4:]

    def sid(self):
        return int(self.tdm.trial_data_state_id)

    def do(self, op):
        """returns the canonical observation of one operation"""
        del self.trace[:]
        kind = op[0]
        self.arg_damage = []
        try:
            if kind == 'init':
                self.init_tdm(op[1])
                self.llh.initialize_for_new_trial()
                return ['none']
            if kind == 'src':
                self.cur = op[1]
                self.llh.change_shg_mgr(self.shgs[op[1]])
                return ['none']
            if kind == 'eval':
                x = WORLDS[self.c['world']]['xs'][op[1]]
                if not hasattr(self, 'fp_buf'):
                    self.fp_buf = np.zeros((2,), dtype=np.float64)     # the caller hands the SAME ndarray to every call
                fp = self.fp_buf
                fp[:] = [float(NS[op[1]]), x]
                fp0 = fp.copy()
                (ll, grads) = self.llh.evaluate(fp)
                if not np.array_equal(fp, fp0):
                    self.arg_damage.append(('ZeroSigH0SingleDatasetTCLLHRatio.evaluate', 'argument-modified', 'fitparam_values changed by evaluate'))
                self.keep('ZeroSigH0SingleDatasetTCLLHRatio.evaluate', grads)
                return ['eval', 'Ok', [float(ll)] + [float(g) for g in grads]]
            if kind == 'ns2':
                return ['ns2', 'Ok', [float(self.llh.calculate_ns_grad2(float(op[1])))]]
            if kind == 'max':
                from skyllh.core.random import RandomStateService
                from skyllh.core.test_statistic import WilksTestStatistic
                (llmax, fpmax, status) = self.llh.maximize(rss=RandomStateService(seed=1))
                ts = WilksTestStatistic()(pmm=self.pmm, log_lambda=llmax, fitparam_values=fpmax)
                self.keep('ZeroSigH0SingleDatasetTCLLHRatio.maximize', fpmax)
                return ['max', 'Ok', [float(llmax)] + [float(v) for v in fpmax] + [float(ts)]]
        except Exception as ex:   # the exception class is the observation
            return [kind if kind in ('eval', 'ns2', 'max') else 'none', 'Err', type(ex).__name__]
        raise ValueError(op)


class MRig:
    """two datasets: MultiDatasetTCLLHRatio over two single-dataset Rigs sharing the mapper, the sources and the trace,
    optionally wrapped by NsProfileMultiDatasetTCLLHRatio"""

    def __init__(self, c, src):
        from skyllh.core.detsigyield import DetSigYield
        from skyllh.core.llhratio import MultiDatasetTCLLHRatio, NsProfileMultiDatasetTCLLHRatio
        from skyllh.core.minimizer import Minimizer, LBFGSMinimizerImpl
        from skyllh.core.services import (DatasetSignalWeightFactorsService, DetSigYieldService,
                                          SrcDetSigYieldWeightsService)
        self.c = c
        m = c['multi']
        self.r1 = Rig(c, src)
        self.r2 = Rig(c, src, shared=self.r1, ds=1)
        self.rigs = (self.r1, self.r2)
        self.trace = self.r1.trace
        self.cur = src
        self.pmm = self.r1.pmm
        self.shgs = self.r1.shgs
        cfg = self.r1.cfg

        class ConstDetSigYield(DetSigYield):
            def __init__(self, j):
                self._j = j

            def sources_to_recarray(self, sources):
                rec = np.empty((len(sources),), dtype=[('dec', np.float64)])
                for (i, s_) in enumerate(sources):
                    rec[i]['dec'] = s_.dec
                return rec

            def __call__(self, src_recarray, src_params_recarray):
                return (1.0 + 2.0 * self._j + src_recarray['dec'], dict())

        class Svc(DetSigYieldService):
            def construct_detsigyield_array(self, ppbar=None):
                arr = np.empty((2, self._shg_mgr.n_src_hypo_groups), dtype=object)
                for j in range(2):
                    for g in range(self._shg_mgr.n_src_hypo_groups):
                        arr[j, g] = ConstDetSigYield(j)
                return arr
        self.dsy = dsy = Svc(shg_mgr=self.shgs[src], dataset_list=[], data_list=[])
        w1 = SrcDetSigYieldWeightsService(detsigyield_service=dsy)
        w2 = DatasetSignalWeightFactorsService(src_detsigyield_weights_service=w1)
        self.multi = MultiDatasetTCLLHRatio(
            pmm=self.pmm, minimizer=Minimizer(LBFGSMinimizerImpl(cfg=cfg)), src_detsigyield_weights_service=w1,
            ds_sig_weight_factors_service=w2, llhratio_list=[self.r1.llh, self.r2.llh], cfg=cfg)
        if m['profile']:
            self.llh = NsProfileMultiDatasetTCLLHRatio(
                pmm=self.pmm, minimizer=Minimizer(LBFGSMinimizerImpl(cfg=cfg)), mean_n_sig_0=float(m['ns0']),
                llhratio=self.multi, cfg=cfg)
        else:
            self.llh = self.multi
        self.kept = []

    def sid(self):
        return (self.r1.sid(), self.r2.sid())

    def probe_state(self, site):
        out = self.r1.probe_state(site) + self.r2.probe_state(site)
        for (s0, arr, cp) in self.kept:
            if not np.array_equal(arr, cp, equal_nan=True):
                out.append((s0, 'returned-array-changed-later', f'after {site}: an array returned by an earlier {s0} call changed'))
        return out

    def fitparams(self, name):
        w = WORLDS[self.c['world']]
        if not hasattr(self, 'fp_buf'):
            self.fp_buf = np.zeros((1 if self.c['multi']['profile'] else 2,), dtype=np.float64)
        fp = self.fp_buf                 # the caller hands the SAME ndarray to every call
        fp[0] = float(NS[name])
        if not self.c['multi']['profile']:
            fp[1] = w['xs'][name]
        return fp

    def do(self, op):
        del self.trace[:]
        kind = op[0]
        self.arg_damage = []
        cls = type(self.llh).__name__
        try:
            if kind == 'init':
                for r in self.rigs:
                    r.cur = self.cur
                    r.init_tdm(op[1])
                self.llh.initialize_for_new_trial()
                return ['init', 'Ok']
            if kind == 'src':
                self.cur = op[1]
                # Analysis.change_shg_mgr: the detector signal yield service first, then the LLH ratio function
                self.dsy.change_shg_mgr(self.shgs[op[1]])
                self.llh.change_shg_mgr(self.shgs[op[1]])
                return ['none']
            if kind == 'eval':
                fp = self.fitparams(op[1])
                fp0 = fp.copy()
                (ll, grads) = self.llh.evaluate(fp)
                if not np.array_equal(fp, fp0):
                    self.arg_damage.append((cls + '.evaluate', 'argument-modified', 'fitparam_values changed by evaluate'))
                self.kept = (self.kept + [(cls + '.evaluate', grads, grads.copy())])[-4:]
                return ['eval', 'Ok', [float(ll)] + [float(g) for g in grads]]
            if kind == 'ns2':
                fp = self.fitparams('p').copy()
                fp[0] = float(op[1])
                rec = self.pmm.create_src_params_recarray(fp)
                v = self.llh.calculate_ns_grad2(ns=float(op[1]), ns_pidx=0, src_params_recarray=rec)
                return ['ns2', 'Ok', [float(v)]]
            if kind == 'max':
                from skyllh.core.random import RandomStateService
                from skyllh.core.test_statistic import WilksTestStatistic
                (llmax, fpmax, status) = self.llh.maximize(rss=RandomStateService(seed=1))
                ts = WilksTestStatistic()(pmm=self.pmm, log_lambda=llmax, fitparam_values=fpmax)
                return ['max', 'Ok', [float(llmax)] + [float(v) for v in fpmax] + [float(ts)]]
        except Exception as ex:
            return [kind if kind in ('eval', 'ns2', 'max', 'init') else 'none', 'Err', type(ex).__name__]
        raise ValueError(op)


CHAIN_DATA = {
    # (ra, dec, ang_err, x) per event, total number of events
    'A': ([(1.10, 0.25, 0.30, 3.0), (2.20, -0.10, 0.45, 5.0), (0.50, 0.60, 0.25, 7.0), (1.70, 0.05, 0.60, 1.5)], 20),
    'B': ([(1.30, 0.35, 0.40, 2.5), (1.90, -0.25, 0.35, 6.5), (0.90, 0.10, 0.50, 4.0), (2.40, -0.30, 0.30, 8.5)], 20),
    'C': ([(1.05, 0.33, 0.35, 3.5), (2.05, -0.22, 0.30, 5.5), (0.70, 0.50, 0.55, 6.0), (1.50, 0.00, 0.40, 2.0),
           (2.60, -0.40, 0.45, 9.0), (0.30, 0.20, 0.65, 0.5)], 25),
}
# (ra, dec, relative weight): a source change alters positions AND the relative weights of the two sources
CHAIN_SOURCES = {1: [(1.0, 0.3, 1.0), (2.0, -0.2, 1.0)], 2: [(1.4, 0.1, 1.0), (2.3, -0.35, 3.0)]}
# background PDF exactly zero for x >= 8: the PDF ratio of such events is the constant zero_bkg_ratio_value
BKGZERO_CFGS = [dict(world=w, fields=f, cache=ca, interp=i, gfp=None, bkgzero=True)
                for (w, f, ca, i) in (('small', 'none', True, 'lin'), ('mjd', 'stat', False, 'par'), ('small', 'all', True, 'par'))]
BKGZERO_HISTORIES = [
    [('init', 'A'), ('eval', 'p'), ('init', 'D'), ('eval', 'p'), ('ns2', 5)],
    [('init', 'D'), ('eval', 'p'), ('init', 'E'), ('eval', 'p')],
    [('init', 'B'), ('eval', 'q'), ('eval', 'p'), ('init', 'E'), ('eval', 'q'), ('max',)],
    [('init', 'E'), ('eval', 'r'), ('init', 'A'), ('eval', 'r'), ('init', 'D'), ('eval', 'r')],
]
CHAIN_CFGS = [dict(world=w, fields='none', cache=ca, interp=i, gfp=None, chain=True)
              for (w, ca, i) in (('small', True, 'lin'), ('small', False, 'par'), ('mjd', True, 'par'))]


class ChainRig:
    """the classes of the property's state list that precompute per trial, chained as in an analysis with TWO sources:
    SourceWeightedPDFRatio( PDFRatioProduct( SigOverBkgPDFRatio(RayleighPSFPointSourceSignalSpatialPDF [_pd],
    BackgroundI3SpatialPDF [_pd]), SigOverBkgPDFRatio(SignalMultiDimGridPDFSet [masked _cache_pd path, interpolation
    cache with per-source key vectors], BackgroundMultiDimGridPDF) ) ) in a ZeroSigH0SingleDatasetTCLLHRatio under a
    MultiDatasetTCLLHRatio (which drives the weight services).  Predicates only (fresh twin, repeat, probes)."""

    def __init__(self, c, src):
        from skyllh.core.config import Config
        from skyllh.core.trialdata import TrialDataManager
        from skyllh.core.source_hypo_grouping import SourceHypoGroupManager, SourceHypoGroup
        from skyllh.core.source_model import PointLikeSource
        from skyllh.core.flux_model import PowerLawEnergyFluxProfile, SteadyPointlikeFFM
        from skyllh.core.parameters import Parameter, ParameterModelMapper, ParameterGrid, ParameterSet
        from skyllh.core.binning import BinningDefinition
        from skyllh.core.signalpdf import (RayleighPSFPointSourceSignalSpatialPDF, SignalMultiDimGridPDF,
                                           SignalMultiDimGridPDFSet)
        from skyllh.core.backgroundpdf import BackgroundMultiDimGridPDF
        from skyllh.i3.backgroundpdf import BackgroundI3SpatialPDF
        from skyllh.core.pdfratio import SigOverBkgPDFRatio, SourceWeightedPDFRatio, PDFRatioProduct
        from skyllh.core.llhratio import ZeroSigH0SingleDatasetTCLLHRatio, MultiDatasetTCLLHRatio
        from skyllh.core.minimizer import Minimizer, LBFGSMinimizerImpl
        from skyllh.core.interpolate import (Linear1DGridManifoldInterpolationMethod,
                                             Parabola1DGridManifoldInterpolationMethod)
        from skyllh.core.detsigyield import DetSigYield
        from skyllh.core.services import (DatasetSignalWeightFactorsService, DetSigYieldService,
                                          SrcDetSigYieldWeightsService)
        from skyllh.core.utils.coords import angular_separation
        self.c = c
        w = WORLDS[c['world']]
        self.cfg = cfg = Config()
        self.trace = []
        self.cur = src
        self.kept = []
        self.rigs = ()

        def mk_shg(k):
            ss = [PointLikeSource(name=f's{j}', ra=ra, dec=dec, weight=wt) for j, (ra, dec, wt) in enumerate(CHAIN_SOURCES[k])]
            fm = SteadyPointlikeFFM(Phi0=1, energy_profile=PowerLawEnergyFluxProfile(E0=1e3, gamma=2, cfg=cfg), cfg=cfg)
            return SourceHypoGroupManager(SourceHypoGroup(sources=ss, fluxmodel=fm, detsigyield_builders=[], sig_gen_method=None))
        self.shgs = {k: mk_shg(k) for k in CHAIN_SOURCES}
        shg = self.shgs[src]
        self.pmm = pmm = ParameterModelMapper(models=shg.source_list)
        pmm.map_param(Parameter('ns', 1, 0, 8))
        # the minimiser stays where the PDF set has PDFs for the neighbouring grid values
        p_g = Parameter('gamma', w['lb'] + 2.3 * w['delta'], w['lb'] + 1.2 * w['delta'], w['lb'] + (w['npts'] - 2.2) * w['delta'])
        pmm.map_param(p_g, models=shg.source_list)
        self.tdm = tdm = TrialDataManager()
        tdm.add_source_data_field('src_array', lambda tdm, shg_mgr, pmm: np.array(
            [(s_.ra, s_.dec) for s_ in shg_mgr.source_list], dtype=[('ra', np.float64), ('dec', np.float64)]))

        def psi(tdm, shg_mgr, pmm):
            (si, ei) = tdm.src_evt_idxs
            sa = tdm.get_data('src_array')
            return angular_separation(np.take(sa['ra'], si), np.take(sa['dec'], si),
                                      np.take(tdm.get_data('ra'), ei), np.take(tdm.get_data('dec'), ei))
        tdm.add_data_field('psi', psi, is_srcevt_data=True)
        tdm.add_data_field('sin_dec', lambda tdm, shg_mgr, pmm: np.sin(tdm.get_data('dec')))
        sig_sp = RayleighPSFPointSourceSignalSpatialPDF(cfg=cfg)
        rs = np.random.RandomState(3)
        self.bkg_sp = BackgroundI3SpatialPDF(
            data_sin_dec=rs.uniform(-1, 1, 500), data_weights=np.ones(500),
            sin_dec_binning=BinningDefinition('sin_dec', np.linspace(-1, 1, 11)), spline_order_sin_dec=2, cfg=cfg)
        spatial = SigOverBkgPDFRatio(sig_pdf=sig_sp, bkg_pdf=self.bkg_sp, same_axes=False, cfg=cfg)
        gridvals = np.array([w['lb'] + k * w['delta'] for k in range(w['npts'])])
        grid = ParameterGrid('gamma', gridvals, delta=w['delta'])
        bx = BinningDefinition('x', np.linspace(0, 10, 11))
        pdfs = []
        for k, g in enumerate(gridvals):
            data = np.linspace(1.0, 2.0, 11) * (1.0 + 0.1 * k) + 0.05 * np.sin(np.arange(11) * (k + 1))
            pdfs.append(({'gamma': g}, SignalMultiDimGridPDF(pmm=pmm, axis_binnings=[bx], pdf_grid_data=data,
                                                             cache_pd_values=c['cache'], cfg=cfg)))
        icls = Parabola1DGridManifoldInterpolationMethod if c['interp'] == 'par' else Linear1DGridManifoldInterpolationMethod
        sigset = SignalMultiDimGridPDFSet(pmm=pmm, param_set=ParameterSet([p_g]), param_grid_set=grid,
                                          gridparams_pdfs=pdfs, interpol_method_cls=icls, cfg=cfg)
        bkg_e = BackgroundMultiDimGridPDF(pmm=pmm, axis_binnings=[bx], pdf_grid_data=np.linspace(2.0, 1.0, 11),
                                          cache_pd_values=c['cache'], cfg=cfg)
        energy = SigOverBkgPDFRatio(sig_pdf=sigset, bkg_pdf=bkg_e, same_axes=False, cfg=cfg)
        product = PDFRatioProduct(spatial, energy, cfg=cfg)

        class ConstDetSigYield(DetSigYield):
            def __init__(self):
                pass

            def sources_to_recarray(self, sources):
                rec = np.empty((len(sources),), dtype=[('dec', np.float64)])
                for (i, s_) in enumerate(sources):
                    rec[i]['dec'] = s_.dec
                return rec

            def __call__(self, src_recarray, src_params_recarray):
                return (2.0 + src_recarray['dec'], dict())

        class Svc(DetSigYieldService):
            def construct_detsigyield_array(self, ppbar=None):
                arr = np.empty((1, self._shg_mgr.n_src_hypo_groups), dtype=object)
                for g_ in range(self._shg_mgr.n_src_hypo_groups):
                    arr[0, g_] = ConstDetSigYield()
                return arr
        self.dsy = Svc(shg_mgr=shg, dataset_list=[], data_list=[])
        w1 = SrcDetSigYieldWeightsService(detsigyield_service=self.dsy)
        w2 = DatasetSignalWeightFactorsService(src_detsigyield_weights_service=w1)
        weighted = SourceWeightedPDFRatio(dataset_idx=0, src_detsigyield_weights_service=w1, pdfratio=product, cfg=cfg)
        single = ZeroSigH0SingleDatasetTCLLHRatio(pmm=pmm, minimizer=Minimizer(LBFGSMinimizerImpl(cfg=cfg)), shg_mgr=shg,
                                                  tdm=tdm, pdfratio=weighted, cfg=cfg)
        self.llh = MultiDatasetTCLLHRatio(pmm=pmm, minimizer=Minimizer(LBFGSMinimizerImpl(cfg=cfg)),
                                          src_detsigyield_weights_service=w1, ds_sig_weight_factors_service=w2,
                                          llhratio_list=[single], cfg=cfg)

    def sid(self):
        return int(self.tdm.trial_data_state_id)

    def probe_state(self, site):
        out = []
        if getattr(self, 'cur_events', None) is not None:
            (ev, cols) = self.cur_events
            for name, vals in cols.items():
                if not np.array_equal(np.asarray(ev[name]), vals):
                    out.append(('TrialDataManager.events', 'caller-array-modified',
                                f'after {site}: column {name} of the events array handed to initialize_trial changed'))
        for (s0, arr, cp) in self.kept:
            if not np.array_equal(arr, cp, equal_nan=True):
                out.append((s0, 'returned-array-changed-later', f'after {site}: an array returned by an earlier {s0} call changed'))
        return out

    def do(self, op):
        from skyllh.core.storage import DataFieldRecordArray as DFRA
        kind = op[0]
        self.arg_damage = []
        w = WORLDS[self.c['world']]
        try:
            if kind == 'init':
                (rows, n) = CHAIN_DATA[op[1]]
                arr = np.array(rows, dtype=[('ra', np.float64), ('dec', np.float64), ('ang_err', np.float64), ('x', np.float64)])
                ev = DFRA(arr)
                self.tdm.initialize_trial(self.shgs[self.cur], self.pmm, ev, n_events=n)
                self.cur_events = (ev, {k: arr[k].copy() for k in arr.dtype.names})
                self.llh.initialize_for_new_trial()
                return ['init', 'Ok']
            if kind == 'src':
                self.cur = op[1]
                self.dsy.change_shg_mgr(self.shgs[op[1]])
                self.llh.change_shg_mgr(self.shgs[op[1]])
                return ['none']
            if kind == 'eval':
                if not hasattr(self, 'fp_buf'):
                    self.fp_buf = np.zeros((2,), dtype=np.float64)
                fp = self.fp_buf
                fp[:] = [float(NS[op[1]]), w['xs'][op[1]]]
                fp0 = fp.copy()
                (ll, grads) = self.llh.evaluate(fp)
                if not np.array_equal(fp, fp0):
                    self.arg_damage.append(('MultiDatasetTCLLHRatio.evaluate', 'argument-modified', 'fitparam_values changed by evaluate'))
                self.kept = (self.kept + [('MultiDatasetTCLLHRatio.evaluate', grads, grads.copy())])[-4:]
                return ['eval', 'Ok', [float(ll)] + [float(g) for g in grads]]
            if kind == 'ns2':
                rec = self.pmm.create_src_params_recarray(np.array([float(op[1]), w['xs']['p']]))
                return ['ns2', 'Ok', [float(self.llh.calculate_ns_grad2(ns=float(op[1]), ns_pidx=0, src_params_recarray=rec))]]
            if kind == 'max':
                from skyllh.core.random import RandomStateService
                from skyllh.core.test_statistic import WilksTestStatistic
                (llmax, fpmax, status) = self.llh.maximize(rss=RandomStateService(seed=1))
                ts = WilksTestStatistic()(pmm=self.pmm, log_lambda=llmax, fitparam_values=fpmax)
                return ['max', 'Ok', [float(llmax)] + [float(v) for v in fpmax] + [float(ts)]]
        except Exception as ex:
            return [kind if kind in ('eval', 'ns2', 'max', 'init') else 'none', 'Err', type(ex).__name__]
        raise ValueError(op)


def make_rig(c, src):
    if c.get('chain'):
        return ChainRig(c, src)
    return MRig(c, src) if c.get('multi') else Rig(c, src)


def op_coq(c, op):
    w = WORLDS[c['world']]
    m = c.get('multi')
    if m:
        x = lambda name: int(round(w['xs']['p' if m['profile'] else name] * w['unit']))   # noqa: E731
        if op[0] == 'init':
            d = DATA[op[1]][0]
            return f'MInit W {d * 10} {d * 10 + 1}'
        if op[0] == 'src':
            return f'MSrc W {SOURCES[op[1]][0]}'
        if op[0] == 'eval':
            return f'MEval W {NS[op[1]]} {x(op[1])}'
        if op[0] == 'ns2':
            return f'MNs2 W {op[1]}'
        raise ValueError(op)
    if op[0] == 'init':
        return f'InitTrial W {DATA[op[1]][0]}'
    if op[0] == 'src':
        return f'ChangeSource W {SOURCES[op[1]][0]}'
    if op[0] == 'eval':
        return f'Evaluate W {NS[op[1]]} {int(round(w["xs"][op[1]] * w["unit"]))}'
    if op[0] == 'ns2':
        return f'NsGrad2 W {op[1]}'
    raise ValueError(op)


def history_coq(c, hist):
    ops = '; '.join(op_coq(c, o) for o in hist)
    cc = cfg_coq(c)
    m = c.get('multi')
    if m:
        w = WORLDS[c['world']]
        mw = world_coq(c['world']).replace('(wfree', '(mwfree')
        mc = f"(mkmcfg {'true' if m['profile'] else 'false'} {m['ns0']} {int(round(w['xs']['p'] * w['unit']))})"
        return (f'let W := {world_coq(c["world"])} in let MW := {mw} in '
                f'mrun W {cc} MW {mc} (minit W {cc} MW {SOURCES[1][0]}) [{ops}]')
    if c.get('i3'):
        return f'let W := {world_coq(c["world"])} in i3run W {cc} (i3init W {cc} {SOURCES[1][0]}) [{ops}]'
    return f'let W := {world_coq(c["world"])} in run W {cc} (init W {cc} {SOURCES[1][0]}) [{ops}]'


def canon_model_step(v):
    """(obs, trace, sid) as printed by Coq -> canonical"""
    (ob, tr, sid) = v
    if isinstance(ob, str):
        ob = (ob,)
    head = ob[0]
    if head in ('ONone', 'MNone'):
        o = ['none']
    elif head == 'MInitO':
        r = ob[-1]
        o = ['init', 'Ok'] if r[0] == 'Ok' else ['init', 'Err', r[1]]
    else:
        kind = 'eval' if head in ('OEval', 'MEvalO') else 'ns2'
        r = ob[-1]
        if r[0] == 'Ok':
            o = [kind, 'Ok', tuple(r[1])]
        else:
            o = [kind, 'Err', r[1]]
    t = []
    for e in tr:
        if e == 'TB':
            t.append(('B',))
        elif e == 'TG':
            t.append(('G',))
        elif e == 'TG2':
            t.append(('G2',))
        elif e[0] == 'TF':
            t.append(('F', e[1]))
        else:
            t.append(('P', e[1]))
    return o, t, (tuple(sid) if isinstance(sid, (tuple, list)) else sid)


def close(a, b):
    return len(a) == len(b) and all(
        (math.isnan(x) and math.isnan(y)) or abs(x - y) <= 1e-11 * (abs(x) + abs(y)) + 1e-13 for x, y in zip(a, b))


# ----------------------------------------------------------------- fresh-object oracle
class Oracle:
    """what freshly built objects return for a minimal history"""

    def __init__(self):
        self.memo = {}

    def replay(self, c, src, ops):
        k = (cfg_key(c), src, tuple(ops))
        if k not in self.memo:
            r = make_rig(c, src)
            ob = None
            for o in ops:
                ob = r.do(o)
            self.memo[k] = ob
        return self.memo[k]


def same_obs(a, b):
    if a[:2] != b[:2]:
        return False
    if a[1] == 'Err':
        # a second derivative requested without an evaluation raises: which exception class depends on which object
        # notices first (service without weights / function without ns-gradients); both are "raises"
        return a[2] == b[2] or a[0] == 'ns2'
    if len(a) < 3:
        return True
    return close(a[2], b[2])


def llh_name(c):
    m = c.get('multi')
    if c.get('chain'):
        return 'MultiDatasetTCLLHRatio[SourceWeightedPDFRatio(PDFRatioProduct)]'
    if not m:
        return 'ZeroSigH0SingleDatasetTCLLHRatio'
    return 'NsProfileMultiDatasetTCLLHRatio' if m['profile'] else 'MultiDatasetTCLLHRatio'


class Tracker:
    """one set of real objects driven op by op; after every op the property predicate (same suffix history on freshly
    built objects gives identical numbers) and the generic hardening probes are evaluated"""

    def __init__(self, ctx, c, hist, oracle, tag=''):
        self.ctx, self.c, self.hist, self.oracle, self.tag = ctx, c, hist, oracle, tag
        self.rig = make_rig(c, 1)
        self.cur_src, self.data, self.src_at_init = 1, None, None
        self.last_ok, self.last_failed, self.unknown_nsg = None, False, False
        self.steps = []
        self.i = 0

    def case(self):
        return {'cfg': self.c, 'history': [list(o) for o in self.hist], 'step': self.i, 'mode': self.tag}

    def viol(self, site, kind, detail, ob=None, want=None, pred=None):
        self.ctx.violation(site, kind, f'step {self.i} of {self.hist}{self.tag}: {detail}', case=self.case(), impl=ob,
                           model=want, predicate=pred)

    def step(self):
        ctx, c, op = self.ctx, self.c, self.hist[self.i]
        rig = self.rig
        name = llh_name(c)
        ob = rig.do(op)
        self.steps.append((ob, list(rig.trace), rig.sid()))
        in_protocol = self.data is not None and self.src_at_init == self.cur_src
        if op[0] == 'init':
            self.data, self.src_at_init = op[1], self.cur_src
            self.last_ok, self.last_failed, self.unknown_nsg = None, False, False
            if c.get('multi') and c['multi']['profile'] and ob[:2] == ['init', 'Ok']:
                self.last_ok = '@init'      # the ns-profile function evaluates the null-hypothesis point
        elif op[0] == 'src':
            self.cur_src = op[1]
        elif op[0] in ('eval', 'max'):
            ctx.count(op[0] + ':' + (op[1] if op[0] == 'eval' else ''))
            # the ns-gradients are those of the last evaluation (of the maximisation's last query), also when it raised
            self.last_ok, self.last_failed, self.unknown_nsg = (op if op[0] == 'max' else op[1]), False, False
            if ob[1] != 'Ok':
                ctx.count(op[0] + '-raises:' + ob[2])
            if in_protocol and ob[1] == 'Err' and op != ('eval', 'out'):
                # a legal parameter point in an initialised trial: the function must return numbers (a cascade that
                # does not reach one of the PDFs fails here on fresh and on used objects alike)
                what = 'evaluate' if op[0] == 'eval' else 'maximize'
                self.viol(f'{name}.{what}', 'raises-in-initialised-trial',
                          f'{what} at a legal parameter point in an initialised trial raised {ob[2]}', ob, None,
                          f'{what} returns numbers for a legal point in an initialised trial')
            if in_protocol:
                want = self.oracle.replay(c, self.cur_src, [('init', self.data), op])
                if not same_obs(ob, want):
                    what = 'evaluate' if op[0] == 'eval' else 'maximize'
                    self.viol(f'{name}.{what}', 'depends-on-history',
                              f'used objects give {ob}, freshly built objects give {want}', ob, want,
                              f'{what} after a history == {what} on freshly built objects [init trial d; {what}]')
            else:
                ctx.count('eval-outside-protocol')
                self.unknown_nsg = True     # the ns-gradients now stem from an evaluation outside the protocol
        elif op[0] == 'ns2':
            ctx.count('ns2')
            want = None
            if self.data is None:
                if not c.get('multi') and not c.get('chain'):
                    want = ['ns2', 'Err', 'RuntimeError']
            elif not in_protocol or self.last_failed or self.unknown_nsg:
                ctx.count('ns2-outside-guard')
            else:
                lo = self.last_ok
                pre = [('init', self.data)] + ([] if lo in (None, '@init') else [lo if isinstance(lo, tuple) else ('eval', lo)])
                want = self.oracle.replay(c, self.cur_src, pre + [op])
            if want is not None and not same_obs(ob, want):
                self.viol(f'{name}.calculate_ns_grad2', 'depends-on-history',
                          f'used objects give {ob}, freshly built objects give {want}', ob, want,
                          'calculate_ns_grad2 after a history == on freshly built objects '
                          '[init trial d; evaluate p; calculate_ns_grad2]')
        # hardening probes: arguments are inputs, returned values are owned by the caller
        rigs = rig.rigs if c.get('multi') else (rig,)
        damage = list(getattr(rig, 'arg_damage', []))
        for r in rigs:
            damage += getattr(r, 'shared_hits', [])
            r.shared_hits = []
        for (site, kind, detail) in damage + rig.probe_state(op[0]):
            self.viol(site, kind, detail)
        self.i += 1

    def finish(self):
        """repeat probe: the last evaluation repeated on the same objects gives the same numbers"""
        if self.hist and self.hist[-1][0] == 'eval' and self.steps[-1][0][1] == 'Ok':
            ob = self.rig.do(self.hist[-1])
            if not same_obs(ob, self.steps[-1][0]):
                self.i -= 1
                self.viol(f'{llh_name(self.c)}.evaluate', 'repeat-differs',
                          f'the same evaluation repeated gives {ob} after {self.steps[-1][0]}', ob, self.steps[-1][0],
                          'two identical calls in a row give identical results')
                self.i += 1


def model_comparable(hist):
    return all(o[0] != 'max' for o in hist)


def run_history(ctx, c, hist, oracle, groups, model_exprs, checks):
    """run one history on freshly built real objects, evaluate the predicates, queue the model expression"""
    t = Tracker(ctx, c, hist, oracle)
    for _ in hist:
        t.step()
    t.finish()
    if model_comparable(hist) and not c.get('chain'):
        model_exprs.append(history_coq(c, hist))
        checks.append((c, hist, t.steps))


def run_pair(ctx, ca, ha, cb, hb, oracle, model_exprs, checks):
    """two-instances probe: two sets of objects are built BEFORE first use and driven alternately; each must behave
    like its own fresh twin (and like its own model run)"""
    ta = Tracker(ctx, ca, ha, oracle, tag=' [interleaved with another instance]')
    tb = Tracker(ctx, cb, hb, oracle, tag=' [interleaved with another instance]')
    for k in range(max(len(ha), len(hb))):
        if k < len(ha):
            ta.step()
        if k < len(hb):
            tb.step()
    for (t, c, h) in ((ta, ca, ha), (tb, cb, hb)):
        if model_comparable(h) and not c.get('chain'):
            model_exprs.append(history_coq(c, h))
            checks.append((c, h, t.steps))


def compare(ctx, checks, vals, groups):
    for (c, hist, steps), v in zip(checks, vals):
        ctx.corr_cases += 1
        case = {'cfg': c, 'history': [list(o) for o in hist]}
        try:
            msteps = [canon_model_step(s) for s in v]
        except Exception as ex:
            ctx.disagree('cache.history', case, 'n/a', ['unparsed', repr(v)[:300], str(ex)])
            continue
        if len(msteps) != len(steps):
            ctx.disagree('cache.history', case, len(steps), len(msteps))
            continue
        for i, ((ob, tr, sid), (mo, mt, msid)) in enumerate(zip(steps, msteps)):
            if sid != msid:
                ctx.disagree('cache.state_id', dict(case, step=i), sid, msid, 'trial_data_state_id differs')
                break
            if tr != mt:
                ctx.disagree('cache.trace', dict(case, step=i), tr, mt, 'hit/miss trace differs')
                break
            # an operation before any trial was initialised raises; which exception class depends on which attribute is
            # touched first (None events / None indices): only "raises" is compared there
            no_trial = not any(o[0] == 'init' for o in hist[:i])
            if ob[:2] != mo[:2] or (ob[0] != 'none' and ob[1] == 'Err' and ob[2] != mo[2] and not no_trial):
                ctx.disagree('cache.result_kind', dict(case, step=i), ob, mo[:2] + ([mo[2]] if mo[1:2] == ['Err'] else []),
                             'value / exception differs')
                break
            if ob[0] in ('eval', 'ns2') and ob[1] == 'Ok':
                gk = (cfg_key(c), ob[0], mo[2])
                if gk in groups:
                    if not close(groups[gk][0], ob[2]):
                        ctx.disagree('cache.output', dict(case, step=i, other=groups[gk][1]), ob[2], groups[gk][0],
                                     'two outputs that the model computes from the same inputs differ')
                        break
                else:
                    groups[gk] = (ob[2], [list(o) for o in hist])


# ----------------------------------------------------------------- interp-multi predicate
def interp_multi(ctx):
    """Linear1D / Parabola1D with TWO sources and per-source parameter values:
    the np.all / np.any reductions of the key comparison.  Predicate only."""
    from skyllh.core.trialdata import TrialDataManager
    from skyllh.core.storage import DataFieldRecordArray as DFRA
    from skyllh.core.parameters import ParameterGrid
    from skyllh.core.interpolate import (Linear1DGridManifoldInterpolationMethod,
                                         Parabola1DGridManifoldInterpolationMethod)

    class SHG:
        n_sources = 2
    vals = [2.25, 2.75, 3.25, 4.25]
    pairs = [(a, b) for a in vals for b in vals]
    n = 0
    for cls in (Linear1DGridManifoldInterpolationMethod, Parabola1DGridManifoldInterpolationMethod):
        for wn in ('small', 'mjd'):
            w = WORLDS[wn]
            grid = ParameterGrid('gamma', np.array([w['lb'] + k * w['delta'] for k in range(w['npts'])]), delta=w['delta'])

            def func(tdm, eventdata, gridparams_recarray, n_values):
                g = tdm.broadcast_sources_array_to_values_array(gridparams_recarray['gamma'])
                return np.sin(g - w['lb']) * (1.0 + eventdata[0]) + (g - w['lb']) ** 2
            tdm = TrialDataManager()
            ev = DFRA(np.array([(0.5,), (1.5,), (2.5,)], dtype=[('x', np.float64)]))
            tdm.initialize_trial(SHG(), None, ev)
            eventdata = np.array([np.take(tdm.get_data('x'), tdm.src_evt_idxs[1])])
            seqs = list(itertools.product(pairs, repeat=2)) if ctx.thorough() else \
                [tuple(ctx.rng.choice(pairs) for _ in range(3)) for _ in range(60)]
            for seq in seqs:
                used = cls(func=func, param_grid_set=grid)
                for j, (a, b) in enumerate(seq):
                    sa = w['lb'] + (a if wn == 'small' else a * w['delta'])
                    sb = w['lb'] + (b if wn == 'small' else b * w['delta'])
                    rec = np.array([(sa,), (sb,)], dtype=[('gamma', np.float64)])
                    (v1, g1) = used(tdm=tdm, eventdata=eventdata, params_recarray=rec)
                    (v2, g2) = cls(func=func, param_grid_set=grid)(tdm=tdm, eventdata=eventdata, params_recarray=rec)
                    n += 1
                    if not (close(list(v1), list(v2)) and close(list(np.ravel(g1)), list(np.ravel(g2)))):
                        ctx.violation(cls.__name__ + '.__call__', 'depends-on-history',
                                      f'two sources, parameter sequence {seq}, step {j}: used instance differs from a fresh one',
                                      case={'interp_multi': True, 'cls': cls.__name__, 'world': wn, 'seq': [list(p) for p in seq], 'step': j},
                                      impl=[list(v1)], model=[list(v2)],
                                      predicate='interpolation on a used instance == on a fresh instance')
    ctx.count('interp-multi-evaluations', n)


def masked_cache_probe(ctx):
    """MultiDimGridPDF.get_pd_with_eventdata with cache_pd_values and TWO sources: any order of requests for all values
    (evt_mask None) and for one source's values (evt_mask) must return what an unused PDF instance returns (fix eb1c9d6:
    all values requested after only one source's values had been calculated came back with NaN).  Predicate only."""
    from skyllh.core.config import Config
    from skyllh.core.trialdata import TrialDataManager
    from skyllh.core.storage import DataFieldRecordArray as DFRA
    from skyllh.core.binning import BinningDefinition
    from skyllh.core.signalpdf import SignalMultiDimGridPDF

    class SHG:
        n_sources = 2
    cfg = Config()

    def mk():
        return SignalMultiDimGridPDF(pmm=None, axis_binnings=[BinningDefinition('x', np.linspace(0, 10, 11))],
                                     pdf_grid_data=np.linspace(1.0, 2.0, 11) + 0.05 * np.sin(np.arange(11)),
                                     cache_pd_values=True, cfg=cfg)
    trials = {'A': [1.5, 2.5, 7.25], 'B': [3.5, 4.5, 0.5], 'C': [0.25, 9.5, 5.5, 6.125]}
    seqs = [['m0', None], ['m1', 'm0', None], [None, 'm0', 'm1'], ['m0', 'm0', None, None], ['m1', None, 'new:B', None, 'm0'],
            ['m0', 'new:B', None], ['m0', 'm1', 'new:C', 'm1', None], [None, 'new:B', 'm0', None]]
    n = 0
    for seq in seqs:
        tdm = TrialDataManager()
        tdm.initialize_trial(SHG(), None, DFRA(np.array([(x,) for x in trials['A']], dtype=[('x', np.float64)])))
        used = mk()
        for j, req in enumerate(seq):
            if isinstance(req, str) and req.startswith('new:'):
                xs = trials[req[4:]]
                tdm.initialize_trial(SHG(), None, DFRA(np.array([(x,) for x in xs], dtype=[('x', np.float64)])))
                continue
            ed = np.array([np.take(tdm.get_data('x'), tdm.src_evt_idxs[1])])
            mask = None if req is None else (tdm.src_evt_idxs[0] == int(req[1]))
            got = used.get_pd_with_eventdata(tdm, None, ed, evt_mask=mask)
            want = mk().get_pd_with_eventdata(tdm, None, ed, evt_mask=mask)
            n += 1
            if not close([float(v) for v in got], [float(v) for v in want]):
                ctx.violation('MultiDimGridPDF.get_pd_with_eventdata', 'depends-on-history',
                              f'request sequence {seq}, step {j}: used PDF gives {list(got)}, an unused one {list(want)}',
                              case={'masked_cache': True, 'seq': seq, 'step': j}, impl=[float(v) for v in got],
                              model=[float(v) for v in want],
                              predicate='cached pd values for any mask == pd values of an unused PDF instance')
    ctx.count('masked-cache-requests', n)


# ----------------------------------------------------------------- histories
ALPHABET = [('init', 'A'), ('init', 'B'), ('init', 'C'), ('eval', 'p'), ('eval', 'q'), ('eval', 'r'),
            ('eval', 'far'), ('src', 2), ('ns2', 5)]
SMALL_ALPHABET = [('init', 'A'), ('init', 'B'), ('eval', 'p'), ('eval', 'r'), ('src', 2), ('ns2', 5)]
EXTRA = [('src', 1), ('eval', 'out'), ('ns2', 6)]


def corpus_histories():
    """the histories of the defects repaired in /repo (kept so they are reported if they return)"""
    return [
        # b6f7cf9: state id not changed by initialize_trial without static data fields
        [('init', 'A'), ('eval', 'p'), ('init', 'B'), ('eval', 'p')],
        [('init', 'A'), ('eval', 'p'), ('init', 'B'), ('eval', 'q'), ('ns2', 5)],
        # 1fcff1d: np.isclose key comparison (adjacent cells of an MJD-like grid)
        [('init', 'A'), ('eval', 'p'), ('eval', 'r'), ('eval', 'far'), ('eval', 'p')],
        # 42bfd87: second derivative from the previous trial's ns-gradients
        [('init', 'A'), ('eval', 'p'), ('init', 'B'), ('ns2', 5)],
        [('init', 'A'), ('eval', 'p'), ('init', 'C'), ('ns2', 5), ('eval', 'q')],
        # source change followed by a new trial
        [('init', 'A'), ('eval', 'p'), ('src', 2), ('init', 'A'), ('eval', 'p')],
        [('eval', 'p'), ('ns2', 5), ('init', 'A'), ('ns2', 5), ('eval', 'out')],
        # DataField memo: trial A's last point == trial B's first point, equal (A, B) and different (A, C) event counts
        [('init', 'A'), ('eval', 'q'), ('eval', 'p'), ('init', 'B'), ('eval', 'p')],
        [('init', 'A'), ('eval', 'p'), ('init', 'C'), ('eval', 'p'), ('ns2', 5)],
        [('init', 'B'), ('eval', 'r'), ('eval', 'r'), ('init', 'A'), ('eval', 'r')],
        [('init', 'A'), ('eval', 'p'), ('eval', 'p'), ('eval', 'q'), ('eval', 'p')],
        [('init', 'A'), ('eval', 'p'), ('eval', 'out'), ('ns2', 5), ('eval', 'p')],
    ]


def random_history(rng):
    n = rng.choice([2, 3, 4, 4, 5, 5, 5])
    h = []
    for i in range(n):
        r = rng.random()
        if i == 0 and r < 0.7:
            h.append(rng.choice(ALPHABET[:3]))
        elif r < 0.08:
            h.append(rng.choice(EXTRA))
        else:
            h.append(rng.choice(ALPHABET))
    return h


MAX_HISTORIES = [
    [('init', 'A'), ('max',)],
    [('init', 'A'), ('max',), ('init', 'B'), ('max',)],
    [('init', 'A'), ('eval', 'p'), ('max',), ('eval', 'p'), ('init', 'C'), ('max',)],
    [('init', 'B'), ('max',), ('src', 2), ('init', 'B'), ('max',), ('eval', 'q')],
    [('init', 'A'), ('eval', 'q'), ('init', 'A'), ('max',), ('max',)],
]
MULTI_HISTORIES = [
    [('init', 'A'), ('eval', 'p'), ('init', 'B'), ('eval', 'p'), ('ns2', 5)],
    [('init', 'A'), ('init', 'B'), ('eval', 'p')],
    [('init', 'A'), ('eval', 'q'), ('init', 'C'), ('eval', 'q'), ('eval', 'p')],
    [('init', 'B'), ('ns2', 5), ('eval', 'r'), ('ns2', 5), ('init', 'A'), ('ns2', 5)],
    [('init', 'A'), ('eval', 'p'), ('src', 2), ('init', 'A'), ('eval', 'p')],
    [('eval', 'p'), ('ns2', 5), ('init', 'C'), ('eval', 'far'), ('ns2', 6)],
]


def gen_cases(ctx):
    """list of ('one', cfg, history) and ('pair', cfgA, histA, cfgB, histB)"""
    rng = ctx.rng
    cases = []
    for c in ALL_CFGS:
        for h in corpus_histories():
            cases.append(('one', c, h))
    for c in MULTI_CFGS:
        for h in MULTI_HISTORIES + corpus_histories()[:4] + MAX_HISTORIES[:3]:
            cases.append(('one', c, h))
    # the chain of per-trial precomputing PDFs, PDFRatioProduct and SourceWeightedPDFRatio with two sources (predicates)
    for c in CHAIN_CFGS:
        for h in MULTI_HISTORIES + corpus_histories()[:5] + MAX_HISTORIES:
            cases.append(('one', c, [o for o in h if o != ('eval', 'out')]))
    for c in BKGZERO_CFGS:
        for h in BKGZERO_HISTORIES:
            cases.append(('one', c, h))
    # maximisation result and test statistic (predicate only: the model has no minimizer)
    singles = [c for c in ALL_CFGS if not c.get('reuse')]
    for k, h in enumerate(MAX_HISTORIES):
        for c in (singles[(7 * k) % len(singles)], singles[(7 * k + 13) % len(singles)], singles[(7 * k + 40) % len(singles)]):
            cases.append(('one', c, h))
    if ctx.thorough():
        # exhaustive: all histories up to length 4 over the full alphabet (9 ops) for 6 configurations,
        # all histories of length 5 over the reduced alphabet (6 ops) for 2 configurations, all histories up to
        # length 4 over the reduced alphabet for the two-dataset / ns-profile configurations
        def cf(w, f, ca, i, g=None):
            return dict(world=w, fields=f, cache=ca, interp=i, gfp=g)
        for c in (cf('small', 'none', True, 'lin'), cf('mjd', 'none', True, 'par'),
                  cf('small', 'all', True, 'par'), cf('mjd', 'all', True, 'lin'),
                  cf('small', 'none', True, 'lin', 'srcevt'), cf('mjd', 'all', True, 'par', 'plain')):
            for n in (1, 2, 3, 4):
                for h in itertools.product(ALPHABET, repeat=n):
                    cases.append(('one', c, list(h)))
        for c in (cf('mjd', 'src', True, 'lin'), cf('small', 'stat', False, 'par')):
            for h in itertools.product(SMALL_ALPHABET, repeat=5):
                cases.append(('one', c, list(h)))
        for c in MULTI_CFGS[:6]:
            for n in (2, 3, 4):
                for h in itertools.product(SMALL_ALPHABET, repeat=n):
                    cases.append(('one', c, list(h)))
        nrand, nmulti, npair = 5000, 1500, 600
    else:
        nrand, nmulti, npair = 800, 160, 60
    for _ in range(nrand):
        h = random_history(rng)
        if rng.random() < 0.06:
            h = h[:4] + [('max',)]
        cases.append(('one', rng.choice(ALL_CFGS), h))
    for _ in range(nmulti):
        h = [o for o in random_history(rng) if o != ('eval', 'out')]
        if rng.random() < 0.15:
            h = h[:4] + [('max',)]
        cases.append(('one', rng.choice(MULTI_CFGS), h))
    # two instances built before first use, driven alternately
    for _ in range(npair):
        ca = rng.choice(ALL_CFGS + MULTI_CFGS + CHAIN_CFGS)
        cb = dict(rng.choice(ALL_CFGS)) if rng.random() < 0.6 else dict(ca)
        cases.append(('pair', ca, random_history(rng), cb, random_history(rng)))
    return cases


class _MiniCtx:
    """what the Tracker needs of a Ctx, picklable results (worker processes)"""

    def __init__(self):
        self.stats = {}
        self.viol = []

    def count(self, key, n=1):
        self.stats[key] = self.stats.get(key, 0) + n

    def violation(self, site, kind, detail, **kw):
        self.viol.append((site, kind, detail, kw))


def _worker(chunk):
    mc, oracle, out = _MiniCtx(), Oracle(), []
    for case in chunk:
        me, ck = [], []
        if case[0] == 'one':
            run_history(mc, case[1], case[2], oracle, None, me, ck)
        else:
            run_pair(mc, case[1], case[2], case[3], case[4], oracle, me, ck)
        out.extend(ck)
    return out, mc.stats, mc.viol, len(oracle.memo)


def run(ctx):
    groups = {}
    cases = gen_cases(ctx)
    uniq, seen = [], set()
    for case in cases:
        key = tuple((cfg_key(x) if isinstance(x, dict) else tuple(x)) for x in case[1:])
        if (case[0],) + key in seen:
            continue
        seen.add((case[0],) + key)
        uniq.append(case)
        for k in range(1, len(case), 2):
            (c, h) = (case[k], case[k + 1])
            ctx.case({'cfg': cfg_key(c), 'h': h, 'mode': case[0]}, nontrivial=any(o[0] in ('eval', 'max') for o in h))
            ctx.count('cfg:' + cfg_key(c))
            ctx.count('len:%d' % len(h))
        ctx.count('mode:' + case[0])
    ctx.sample({'cfg': cfg_key(uniq[-1][1]), 'history': uniq[-1][2]})
    ctx.sample({'cfg': cfg_key(uniq[0][1]), 'history': uniq[0][2]})
    ctx.sample({'cfg': cfg_key(MULTI_CFGS[-1]), 'history': MULTI_HISTORIES[0]})
    # the implementation side: worker processes (each history builds its own objects)
    nproc = 6 if ctx.thorough() else 3
    size = max(40, min(600, len(uniq) // (nproc * 4) + 1))
    chunks = [uniq[i:i + size] for i in range(0, len(uniq), size)]
    model_exprs, checks, nref = [], [], 0
    import concurrent.futures
    import multiprocessing
    with concurrent.futures.ProcessPoolExecutor(max_workers=nproc, mp_context=multiprocessing.get_context('fork')) as ex:
        for (out, stats, viol, nmemo) in ex.map(_worker, chunks):
            nref += nmemo
            for k, v in stats.items():
                ctx.count(k, v)
            for (site, kind, detail, kw) in viol:
                ctx.violation(site, kind, detail, **kw)
            for (c, h, steps) in out:
                model_exprs.append(history_coq(c, h))
                checks.append((c, h, steps))
    interp_multi(ctx)
    masked_cache_probe(ctx)
    ctx.count('fresh-object-references', nref)
    if ctx.model_ok:
        try:
            vals = common.coq_eval('c06', IMPORTS, model_exprs)
            compare(ctx, checks, vals, groups)
            ctx.count('output-groups', len(groups))
        except RuntimeError as ex:
            ctx.broken.append({'kind': 'model-eval', 'error': str(ex)[:1500]})
    else:
        ctx.notes.append('model did not build: implementation-only predicates were evaluated')


def replay(ctx, rp):
    c = rp.get('case') or {}
    if c.get('interp_multi'):
        return interp_multi(ctx)
    if c.get('masked_cache'):
        return masked_cache_probe(ctx)
    if not c.get('history'):
        ctx.notes.append('replay file has no concrete input (broken obligation): re-running the full check')
        return run(ctx)
    cfgd = c['cfg']
    hist = [tuple(o) for o in c['history']]
    oracle, groups, model_exprs, checks = Oracle(), {}, [], []
    ctx.case({'cfg': cfg_key(cfgd), 'h': hist})
    run_history(ctx, cfgd, hist, oracle, groups, model_exprs, checks)
    if c.get('other'):
        run_history(ctx, cfgd, [tuple(o) for o in c['other']], oracle, groups, model_exprs, checks)
    if 'interleaved' in (c.get('mode') or ''):
        ctx.notes.append('the violation was seen while another instance was driven alternately: re-running the pair stream')
        run(ctx)
    elif ctx.model_ok and model_exprs:
        compare(ctx, checks, common.coq_eval('c06r', IMPORTS, model_exprs), groups)
