"""Shared machinery of the checks: environment, build + proof gate, running the
Coq model (vm_compute) or the extracted OCaml model, verdicts, known findings,
evidence files."""
import concurrent.futures
import fcntl
import glob
import hashlib
import json
import os
import random
import re
import subprocess
import sys
import time

VERIF = os.path.dirname(os.path.dirname(os.path.abspath(__file__)))
REPO = os.environ.get('SKYLLH_REPO', '/repo')
COQ = os.path.join(VERIF, 'coq')
BUILD = os.path.join(VERIF, 'build')
PY = '/venv/bin/python'
MEM_KB = int(os.environ.get('VERIF_COQ_MEM_KB', str(12 * 1024 * 1024)))   # address-space cap per coqc (a runaway proof must not take the machine down)

FORBIDDEN = re.compile(
    r'\b(Admitted|admit|Axiom|Axioms|Parameter|Parameters|Conjecture|Conjectures|'
    r'Admit\s+Obligations|Unset\s+Guard\s+Checking|bypass_check|'
    r'Unset\s+Positivity\s+Checking|Unset\s+Universe\s+Checking|'
    r'type-in-type|impredicative-set|native_compute)\b')

STD_AXIOMS = {
    'ClassicalDedekindReals.sig_not_dec',
    'ClassicalDedekindReals.sig_forall_dec',
    'FunctionalExtensionality.functional_extensionality_dep',
    'Classical_Prop.classic',
    'ProofIrrelevance.proof_irrelevance',
    'Eqdep.Eq_rect_eq.eq_rect_eq',
    'JMeq.JMeq_eq',
    'ClassicalEpsilon.constructive_indefinite_description',
    'PropExtensionality.propositional_extensionality',
    'ClassicalFacts.prop_extensionality',
}


def sh(cmd, timeout=None, cwd=None, env=None, input=None):
    p = subprocess.run(cmd, shell=isinstance(cmd, str), cwd=cwd, env=env,
                       input=input, capture_output=True, text=True,
                       timeout=timeout)
    return p.returncode, p.stdout, p.stderr


class Lock:
    def __init__(self, name='build'):
        os.makedirs(BUILD, exist_ok=True)
        self.path = os.path.join(BUILD, f'.{name}.lock')

    _depth = {}     # re-entrant within one process (./check holds it across translator + builds)

    def __enter__(self):
        d = Lock._depth.get(self.path, 0)
        if d == 0:
            self.f = open(self.path, 'w')
            fcntl.flock(self.f, fcntl.LOCK_EX)
            Lock._file = getattr(Lock, '_file', {})
            Lock._file[self.path] = self.f
        Lock._depth[self.path] = d + 1
        return self

    def __exit__(self, *a):
        d = Lock._depth[self.path] - 1
        Lock._depth[self.path] = d
        if d == 0:
            f = Lock._file.pop(self.path)
            fcntl.flock(f, fcntl.LOCK_UN)
            f.close()


class Ctx:
    def __init__(self, prop, tier, seed, replay=None):
        self.prop = prop
        self.tier = tier
        self.seed = seed
        self.replay = replay
        self.rng = random.Random(seed)
        self.t0 = time.time()
        self.violations = []     # unlisted violations
        self.known_hits = []     # matched known findings
        self.broken = []         # broken proof obligations / translator errors / model build
        self.stats = {}
        self.samples = []
        self.notes = []
        self.theorems = []       # [(name, kind, axioms)]
        self.obligations = 0
        self.discharged = 0
        self.model_ok = True
        self.translator = None
        self.evaluations = 0
        self.distinct = set()
        self.corr_cases = 0
        self.corr_disagreements = 0
        self.assumptions = []
        with open(os.path.join(VERIF, 'known_findings.json')) as f:
            self.known = json.load(f)['findings']

    # ---------------------------------------------------------------- counting
    def count(self, key, n=1):
        self.stats[key] = self.stats.get(key, 0) + n

    def case(self, key_obj, nontrivial=True):
        """register one explored case (for the evidence counters)"""
        self.evaluations += 1
        if nontrivial:
            h = hashlib.sha1(json.dumps(key_obj, sort_keys=True, default=str).encode()).hexdigest()
            self.distinct.add(h)

    def sample(self, obj, limit=6):
        if len(self.samples) < limit:
            self.samples.append(obj)

    def thorough(self):
        return self.tier == 'thorough'

    def budget(self, quick, thorough):
        return thorough if self.tier == 'thorough' else quick

    # ---------------------------------------------------------------- verdicts
    def violation(self, site, kind, detail, case=None, impl=None, model=None,
                  predicate=None, no_input=False):
        """Record a violation.  (site, kind) is the signature matched against
        known_findings.json; `case` is the concrete replayable input."""
        for k in self.known:
            if (k.get('property') == self.prop and k.get('status') == 'open'
                    and k['signature'].get('site') == site
                    and k['signature'].get('kind') == kind):
                if not any(h['id'] == k['id'] for h in self.known_hits):
                    self.known_hits.append({'id': k['id'], 'text': k.get('text', ''),
                                            'site': site, 'kind': kind, 'example': case})
                self.count('known_finding_hits')
                return False
        for v in self.violations:
            if v['site'] == site and v['kind'] == kind:
                v['count'] += 1
                return True
        self.violations.append({
            'property': self.prop, 'site': site, 'kind': kind, 'detail': detail,
            'case': case, 'impl_observed': impl, 'model_predicted': model,
            'predicate': predicate, 'no_failing_input': no_input, 'count': 1,
            'seed': self.seed, 'tier': self.tier})
        return True

    def disagree(self, site, case, impl, model, detail=''):
        """model and implementation differ on a case: the correspondence is
        broken; the case itself is the first candidate failing input."""
        self.corr_disagreements += 1
        return self.violation(site, 'correspondence', detail or 'model and implementation differ',
                              case=case, impl=impl, model=model,
                              predicate='model(case) == impl(case)')


# -------------------------------------------------------------------- building

def run_translator(ctx, modules=None):
    os.makedirs(BUILD, exist_ok=True)
    rc, out, err = sh([PY, os.path.join(VERIF, 'translator', 'py2coq.py')] + list(modules or []), timeout=300)
    try:
        rep = json.loads(out)
    except Exception:
        rep = {'kernels': {}, 'errors': [{'kernel': None, 'error': (out + err)[-2000:]}]}
    ctx.translator = rep
    return rep


def coq_code_only(txt):
    """Return the text of a .v file with comments (nested, as Coq lexes them) and string literals blanked
    out, so that a forbidden word can be hidden neither in a string that looks like a comment opener nor behind
    one.  Inside comments Coq also lexes strings, which is honoured."""
    out = []
    i, n, depth = 0, len(txt), 0
    while i < n:
        c = txt[i]
        if c == '"':
            # string literal (also inside comments); "" is an escaped quote
            j = i + 1
            while j < n:
                if txt[j] == '"':
                    if j + 1 < n and txt[j + 1] == '"':
                        j += 2
                        continue
                    break
                j += 1
            if depth == 0:
                out.append('""')
            i = j + 1
            continue
        if txt.startswith('(*', i):
            depth += 1
            i += 2
            continue
        if depth > 0 and txt.startswith('*)', i):
            depth -= 1
            i += 2
            out.append(' ')
            continue
        if depth == 0:
            out.append(c)
        i += 1
    if depth != 0:
        out.append(' Axiom UNTERMINATED_COMMENT ')     # flagged by the gate
    return ''.join(out)


SECTION_ONLY = re.compile(r'^\s*(?:Local\s+|Global\s+)?(Variable|Variables|Hypothesis|Hypotheses|Context)\b', re.M)


def gate_scan():
    """scan the whole development (and the extraction scripts) for forbidden vernacular, on the code text only
    (comments and strings removed by a real lexer); also Variable/Hypothesis/Context outside a Section."""
    bad = []
    files = glob.glob(os.path.join(COQ, '**', '*.v'), recursive=True)
    files += glob.glob(os.path.join(VERIF, 'ocaml', '*', 'extract.v'))
    for p in files:
        with open(p) as f:
            code = coq_code_only(f.read())
        rel = os.path.relpath(p, VERIF)
        for m in FORBIDDEN.finditer(code):
            bad.append((rel, m.group(0)))
        if re.search(r'\bExtract\s+(Constant|Inlined\s+Constant|Inductive)\b', code):
            bad.append((rel, 'Extract directive outside ExtrOcamlBasic'))
        # section-only declarations must be inside a Section
        depth = 0
        for line in code.splitlines():
            if re.match(r'^\s*Section\s+\w', line):
                depth += 1
            elif re.match(r'^\s*End\s+\w', line) and depth > 0:
                depth -= 1      # (End of a Module also decrements only if a Section is open: conservative enough)
            elif depth == 0 and SECTION_ONLY.match(line):
                bad.append((rel, 'section-only declaration at top level: ' + line.strip()[:60]))
    if os.path.exists(os.path.join(COQ, 'Makefile.local')) or os.path.exists(os.path.join(COQ, 'Makefile.local-late')):
        bad.append(('coq/Makefile.local', 'local makefile include'))
    return bad


def _enclosing_lemma(path, line):
    try:
        with open(path) as f:
            lines = f.readlines()
    except OSError:
        return None
    name = None
    for i, l in enumerate(lines[:line]):
        m = re.match(r'\s*(?:Local\s+|Global\s+)?(Lemma|Theorem|Corollary|Example|Fact|Remark|Proposition|Definition|Fixpoint|Instance)\s+([A-Za-z0-9_\']+)', l)
        if m:
            name = m.group(2)
    return name


def coq_make(ctx, targets, timeout=3000, modules=None):
    """translator -> _CoqProject -> make <targets>.  Returns True when all
    targets built.  Failures are recorded in ctx.broken with file, line and
    the enclosing lemma name."""
    with Lock('build'):
        rep = run_translator(ctx, modules)
        for e in rep['errors']:
            ctx.broken.append({'kind': 'translator', 'kernel': e.get('kernel'),
                               'module': e.get('out'), 'error': e.get('error')})
        sh([os.path.join(VERIF, 'tools', 'mkcoqproject.sh')], timeout=120)
        ok = True
        for tgt in targets:
            rc, out, err = sh(f'ulimit -v {MEM_KB}; exec timeout {timeout} make -j8 {tgt}', cwd=COQ, timeout=timeout + 60)
            if rc != 0:
                ok = False
                txt = out + err
                m = re.search(r'File "\./([^"]+)", line (\d+), characters [^\n]*\n(.*?)(?:\nmake|\Z)', txt, flags=re.S)
                if m:
                    fpath, line, msg = m.group(1), int(m.group(2)), m.group(3)
                    ctx.broken.append({'kind': 'proof', 'target': tgt, 'file': fpath, 'line': line,
                                       'lemma': _enclosing_lemma(os.path.join(COQ, fpath), line),
                                       'error': msg.strip()[:1500]})
                else:
                    ctx.broken.append({'kind': 'build', 'target': tgt, 'error': txt[-1500:]})
        return ok


def check_props(ctx, propfile=None):
    """(re)compile props/Prop_<id>.v on its own, capturing Print Assumptions."""
    propfile = propfile or f'props/Prop_{ctx.prop}.v'
    path = os.path.join(COQ, propfile)
    with open(path) as f:
        src = f.read()
    names = re.findall(r'^\s*(Theorem|Example|Corollary|Lemma)\s+([A-Za-z0-9_\']+)', src, flags=re.M)
    ctx.obligations = len(names)
    with Lock('build'):
        vo = path[:-2] + '.vo'
        if os.path.exists(vo):
            os.remove(vo)
        rc, out, err = sh(f'ulimit -v {MEM_KB}; exec timeout 1200 make {propfile[:-2]}.vo', cwd=COQ, timeout=1300)
    txt = out + err
    if rc != 0:
        m = re.search(r'File "\./([^"]+)", line (\d+), characters [^\n]*\n(.*?)(?:\nmake|\Z)', txt, flags=re.S)
        if m:
            fpath, line = m.group(1), int(m.group(2))
            lemma = _enclosing_lemma(os.path.join(COQ, fpath), line)
            ctx.broken.append({'kind': 'proof', 'target': propfile, 'file': fpath, 'line': line,
                               'lemma': lemma, 'error': m.group(3).strip()[:1500]})
            # theorems before the failing one were accepted
            if fpath == propfile:
                upto = [n for (k, n) in names]
                ctx.discharged = upto.index(lemma) if lemma in upto else 0
        else:
            ctx.broken.append({'kind': 'build', 'target': propfile, 'error': txt[-1500:]})
        return False
    ctx.discharged = len(names)
    if not [1 for (k, n) in names if k == 'Theorem']:
        ctx.broken.append({'kind': 'hygiene', 'error': f'{propfile} states no Theorem'})
    # Print Assumptions output blocks, in order of the Print commands (commands are looked up in the code text,
    # not in comments)
    code = coq_code_only(src)
    printed = re.findall(r'^\s*Print Assumptions\s+([A-Za-z0-9_\']+)\s*\.', code, flags=re.M)
    blocks = re.split(r'(?=^Closed under the global context|^Axioms:|^Section Variables:|^Theory:|^Fetching opaque)', out, flags=re.M)
    blocks = [b for b in blocks if re.match(r'Closed|Axioms|Section|Theory|Fetching', b)]
    if len(blocks) != len(printed):
        ctx.broken.append({'kind': 'hygiene', 'error': f'{len(printed)} Print Assumptions commands but {len(blocks)} '
                           'answers in the compiler output: the assumptions cannot be attributed'})
    axioms_all = set()
    for i, n in enumerate(printed):
        ax = []
        if i >= len(blocks):
            ax = ['<no answer captured>']
        elif not blocks[i].startswith('Closed under the global context'):
            body = blocks[i].strip().splitlines()
            for ln in body[1:] if body[0].rstrip().endswith(':') else body:
                if not ln.strip():
                    continue
                m = re.match(r'^([A-Za-z_][A-Za-z0-9_\.\']*)\s*:', ln)
                if m:
                    ax.append(m.group(1))
                elif ln.startswith(' ') or ln.startswith('\t'):
                    continue            # continuation line of a type
                elif re.fullmatch(r"[A-Za-z_][A-Za-z0-9_\.']*", ln.strip()):
                    # long axiom name alone on its line, `  : type` wrapped onto the next line
                    ax.append(ln.strip())
                else:
                    # e.g. "f is assumed to be guarded." / "T relies on an unsafe hierarchy." / a Theory: paragraph
                    ax.append('<unsafe: ' + ln.strip()[:80] + '>')
            if not ax:
                ax = ['<unparsed assumptions block>']
        ctx.theorems.append({'name': n, 'axioms': ax})
        axioms_all.update(ax)
    unprinted = [n for (k, n) in names if k == 'Theorem' and n not in printed]
    if unprinted:
        ctx.broken.append({'kind': 'hygiene', 'error': f'theorems without Print Assumptions: {unprinted}'})
    foreign = sorted(a for a in axioms_all if a not in STD_AXIOMS)
    if foreign:
        ctx.broken.append({'kind': 'axioms', 'error': f'non-standard-library axioms used: {foreign}'})
    ctx.axioms = sorted(axioms_all)
    return True



def coqchk(ctx, timeout=2400):
    """thorough tier: re-check props/Prop_<id>.vo and everything it depends on
    with the independent checker and record the axiom summary it prints."""
    rc, out, err = sh(['timeout', str(timeout), 'coqchk', '-o', '-silent', '-Q', '.', 'Sky',
                       f'Sky.props.Prop_{ctx.prop}'], cwd=COQ, timeout=timeout + 60)
    txt = out + err
    summ = txt[txt.find('CONTEXT SUMMARY'):] if 'CONTEXT SUMMARY' in txt else txt[-1500:]
    ctx.coqchk = {'rc': rc, 'summary': summ.strip()[:4000]}
    if rc != 0:
        ctx.broken.append({'kind': 'coqchk', 'error': txt[-1500:]})
        return False
    m = re.search(r'\* Axioms:(.*?)\n\s*\n\* Constants', summ, flags=re.S)
    axs = [a.strip() for a in (m.group(1) if m else '').splitlines() if a.strip() and a.strip() != '<none>']
    ctx.coqchk['axioms'] = axs
    foreign = [a for a in axs if not (a.startswith('Coq.') or a.startswith('Coquelicot.'))]
    for sect in ('type-in-type', 'unsafe (co)fixpoints', 'positivity is assumed'):
        mm = re.search(re.escape(sect) + r':(.*?)(?:\n\s*\n|\Z)', summ, flags=re.S)
        if mm and mm.group(1).strip() not in ('<none>', ''):
            ctx.broken.append({'kind': 'coqchk', 'error': f'{sect}: {mm.group(1).strip()[:300]}'})
    if foreign:
        ctx.broken.append({'kind': 'coqchk', 'error': f'axioms outside the standard library / Coquelicot: {foreign}'})
    return True

# -------------------------------------------------------------------- Coq eval

_tok = re.compile(r'\s*(\[|\]|;|\(|\)|,|-?\d+|[A-Za-z_][A-Za-z0-9_\']*|%[a-zA-Z]+)')


def parse_coq_value(text):
    """Parse the term printed by `Eval vm_compute` for values built from
    lists, pairs, integers, booleans and constructor applications.  Returns
    nested Python lists / tuples / ints / strings (constructor applications
    become ('Ctor', args...))."""
    pos = 0
    toks = []
    while pos < len(text):
        m = _tok.match(text, pos)
        if not m:
            if text[pos:].strip() == '':
                break
            raise ValueError('cannot tokenise Coq output at: ' + text[pos:pos + 60])
        t = m.group(1)
        if not t.startswith('%'):
            toks.append(t)
        pos = m.end()
    i = 0

    def atom():
        nonlocal i
        t = toks[i]
        if t == '[':
            i += 1
            out = []
            if toks[i] == ']':
                i += 1
                return out
            while True:
                out.append(term())
                if toks[i] == ';':
                    i += 1
                    continue
                if toks[i] == ']':
                    i += 1
                    return out
                raise ValueError('list syntax')
        if t == '(':
            i += 1
            first = term()
            if toks[i] == ',':
                items = [first]
                while toks[i] == ',':
                    i += 1
                    items.append(term())
                assert toks[i] == ')'
                i += 1
                return tuple(items)
            assert toks[i] == ')', toks[i - 3:i + 3]
            i += 1
            return first
        if re.fullmatch(r'-?\d+', t):
            i += 1
            return int(t)
        i += 1
        if t == 'true':
            return True
        if t == 'false':
            return False
        return t

    def term():
        nonlocal i
        head = atom()
        if isinstance(head, str) and head[0].isalpha():
            args = []
            while i < len(toks) and toks[i] not in (']', ';', ')', ','):
                args.append(atom())
            if args:
                return (head,) + tuple(args)
        return head

    v = term()
    return v


def coq_eval(name, imports, exprs, timeout=600):
    """Evaluate Coq expressions with vm_compute inside the assistant.
    `exprs` is a list of Gallina terms (strings); they are split into files of
    at most 400, compiled in parallel, and the parsed values are returned in
    order.  Raises RuntimeError when the model does not evaluate."""
    os.makedirs(os.path.join(BUILD, 'cases'), exist_ok=True)
    chunks = [exprs[i:i + 400] for i in range(0, len(exprs), 400)]
    files = []
    for ci, ch in enumerate(chunks):
        p = os.path.join(BUILD, 'cases', f'{name}_{os.getpid()}_{ci}.v')
        with open(p, 'w') as f:
            f.write(imports + '\nSet Printing Width 1000000.\nSet Printing Depth 10000000.\n')
            for e in ch:
                f.write(f'Eval vm_compute in ({e}).\n')
        files.append(p)

    def one(p):
        rc, out, err = sh(['timeout', str(timeout), 'coqc', '-Q', COQ, 'Sky', p], timeout=timeout + 30)
        for ext in ('.vo', '.vok', '.vos', '.glob'):
            q = p[:-2] + ext
            if os.path.exists(q):
                os.remove(q)
        aux = os.path.join(os.path.dirname(p), '.' + os.path.basename(p)[:-2] + '.aux')
        if os.path.exists(aux):
            os.remove(aux)
        if rc != 0:
            raise RuntimeError(f'coqc failed on {p}: {(out + err)[-1500:]}')
        os.remove(p)
        vals = []
        for blk in re.split(r'^\s*= ', out, flags=re.M)[1:]:
            body = blk.rsplit('\n     : ', 1)[0]
            vals.append(parse_coq_value(body))
        return vals

    with concurrent.futures.ThreadPoolExecutor(max_workers=8) as ex:
        res = list(ex.map(one, files))
    out = [v for r in res for v in r]
    if len(out) != len(exprs):
        raise RuntimeError(f'coq_eval: {len(out)} values for {len(exprs)} expressions')
    return out


def zlit(n):
    n = int(n)
    return f'({n})' if n < 0 else str(n)


def zlist(xs):
    return '[' + '; '.join(zlit(x) for x in xs) + ']'


def zpairs(ps):
    return '[' + '; '.join(f'({zlit(a)}, {zlit(b)})' for a, b in ps) + ']'


# -------------------------------------------------------------------- OCaml

def ocaml_build(ctx, name):
    """build ocaml/<name>/ (extracted model + driver); returns path of binary"""
    d = os.path.join(VERIF, 'ocaml', name)
    with Lock('build'):
        rc, out, err = sh(['timeout', '900', './build.sh'], cwd=d, timeout=1000)
    if rc != 0:
        ctx.broken.append({'kind': 'extraction', 'target': name, 'error': (out + err)[-1500:]})
        return None
    return os.path.join(d, 'driver.exe')


def ocaml_run(binary, lines, timeout=1200):
    rc, out, err = sh([binary], input='\n'.join(lines) + '\n', timeout=timeout)
    if rc != 0:
        raise RuntimeError(f'model driver failed: {(out + err)[-1500:]}')
    return out.splitlines()


def fhex(x):
    return float(x).hex()


# -------------------------------------------------------------------- evidence

def finish(ctx, level='proof', rule='', trusted=None, checker_cmd=None, extra=None):
    os.makedirs(os.path.join(VERIF, 'evidence'), exist_ok=True)
    os.makedirs(os.path.join(BUILD, 'replay'), exist_ok=True)
    lines = []
    if not ctx.replay and ctx.evaluations < 1:
        ctx.broken.append({'kind': 'harness', 'error': 'the harness explored no case at all (a generator that yields '
                           'nothing is not a pass)'})
    # broken obligations with no concrete failing input found
    have_input = any(not v['no_failing_input'] for v in ctx.violations)
    if ctx.broken and not have_input:
        ctx.violations.append({
            'property': ctx.prop, 'site': 'proof-or-correspondence', 'kind': 'broken-obligation',
            'detail': 'a proof obligation, kernel translation or the model build no longer checks; '
                      'the search found no concrete failing input',
            'case': None, 'broken': ctx.broken, 'no_failing_input': True, 'count': 1,
            'seed': ctx.seed, 'tier': ctx.tier})
    for h in ctx.known_hits:
        lines.append(f"KNOWN-FINDING: property={ctx.prop} {h['id']}: {h['text']}")
    for n, v in enumerate(ctx.violations):
        v = dict(v)
        v['broken'] = ctx.broken
        rp = os.path.join(BUILD, 'replay', f'{ctx.prop}-{ctx.tier}-{ctx.seed}-{n}.json')
        with open(rp, 'w') as f:
            json.dump(v, f, indent=1, default=str)
        tail = ' no-failing-input-found' if v.get('no_failing_input') else ''
        lines.append(f'VIOLATION property={ctx.prop} replay={rp}{tail}')
    cov = {
        'obligations': ctx.obligations,
        'discharged': ctx.discharged,
        'checker_cmd': checker_cmd or f'make -C coq props/Prop_{ctx.prop}.vo   (coqc 8.16.1, full .vo build; Print Assumptions under every theorem)',
        'trusted_base': trusted or [],
        'theorems': ctx.theorems,
        'broken': ctx.broken,
        'evaluations': ctx.evaluations,
        'distinct_nontrivial': len(ctx.distinct),
        'rule': rule,
        'samples': ctx.samples or [{'note': 'no sample recorded'}],
        'correspondence_cases': ctx.corr_cases,
        'correspondence_disagreements': ctx.corr_disagreements,
        'distribution': ctx.stats,
        'translator': {
            'kernels': {k: v['sha'] for k, v in (ctx.translator or {}).get('kernels', {}).items()},
            'errors': (ctx.translator or {}).get('errors', [])},
        'known_findings_hit': [h['id'] for h in ctx.known_hits],
        'notes': ctx.notes,
        'coqchk': getattr(ctx, 'coqchk', None),
    }
    if ctx.discharged < 1 or ctx.obligations < 1:
        # not a proof-level record any more: keep the schema's fallback keys only
        cov['obligations_total'] = cov.pop('obligations')
        cov['obligations_discharged'] = cov.pop('discharged')
        cov['evaluations'] = max(cov['evaluations'], 1)
    if extra:
        cov.update(extra)
    # provenance: which tree was checked (a run against a mutated copy must never overwrite the evidence of /repo)
    try:
        head = sh(['git', '-C', REPO, 'rev-parse', 'HEAD'])[1].strip()
        dirty = bool(sh(['git', '-C', REPO, 'status', '--porcelain', '--untracked-files=no'])[1].strip())
    except Exception:
        head, dirty = '?', True
    try:
        with open(os.path.join(COQ, f'props/Prop_{ctx.prop}.v'), 'rb') as f:
            prop_sha = hashlib.sha256(f.read()).hexdigest()[:16]
    except OSError:
        prop_sha = None
    cov['provenance'] = {'repo': REPO, 'repo_head': head, 'repo_dirty': dirty, 'prop_file_sha256': prop_sha,
                         'env': {k: os.environ.get(k) for k in ('SKYLLH_REPO', 'VERIF_NO_COQCHK', 'VERIF_COQ_MEM_KB',
                                                                 'COQEXTRAFLAGS', 'VERIF_SEED', 'VERIF_TIER')}}
    if not ctx.assumptions:
        ctx.assumptions = ([f'axiom (standard library): {a}' for a in getattr(ctx, 'axioms', [])]
                           + list(trusted or []))
    ev = {
        'property_id': ctx.prop, 'tier': ctx.tier, 'seed': ctx.seed, 'level': level,
        'coverage': cov, 'assumptions': ctx.assumptions,
        'wall_s': round(time.time() - ctx.t0, 2), 'violations': len(ctx.violations),
    }
    evdir = os.path.join(VERIF, 'evidence')
    if os.path.realpath(REPO) != '/repo' or ctx.replay:
        evdir = os.path.join(BUILD, 'evidence-other-tree')     # mutated copy / replay: keep evidence/ for /repo
        os.makedirs(evdir, exist_ok=True)
    with open(os.path.join(evdir, f'{ctx.prop}.json'), 'w') as f:
        json.dump(ev, f, indent=1, default=str)
    for l in lines:
        print(l)
    print(f"[{ctx.prop}] tier={ctx.tier} seed={ctx.seed} theorems={ctx.discharged}/{ctx.obligations} "
          f"cases={ctx.evaluations} corr={ctx.corr_cases} disagreements={ctx.corr_disagreements} "
          f"known={len(ctx.known_hits)} violations={len(ctx.violations)} wall={ev['wall_s']}s")
    return 1 if ctx.violations else 0
