"""C17 — data loading returns every row once, identically across modes and formats.

Correspondence: the real skyllh file loaders (NPYFileLoader in both efficiency
modes, TextFileLoader, ParquetFileLoader, PKLFileLoader) and the real
Dataset.load_data / load_and_prepare_data / assert_data_format are run on
generated tables written to a temporary directory, and compared exactly (field
order, dtypes, every cell, number of np.load calls, error kinds) with
coq/model/M_Load.v evaluated by vm_compute.
Predicates (failing-input search): the property evaluated directly on the
implementation's results against the generated tables (an oracle that does not
use the model): every row once in file order, fields = file fields ∩ keep set with
the dtype map applied, memory mode = time mode, csv / parquet = npy, required
analysis-stage fields (configuration and dataset level) present or an error,
missing file -> error."""
import atexit
import os
import pickle
import shutil
import tempfile
import warnings

import numpy as np

from harness import common
from harness.common import zlit, zlist, zpairs

GEN_MODULES = ['load']
MODEL_TARGETS = ['model/M_Load.vo']
PROOF_TARGETS = ['proofs/P_Load.vo', 'proofs/P_LoadDs.vo', 'proofs/P_LoadFiles.vo', 'proofs/P_LoadRen.vo',
                 'proofs/P_LoadE2E.vo', 'proofs/P_LoadFmt.vo', 'proofs/P_LoadPq.vo', 'proofs/P_LoadAudit.vo']
LEVEL = 'proof'
RULE = ('tables with 0..5000+ rows (1, 4095..4097, 5000, 8193 included: crossing the 4096-row re-open block), '
        '1..4 files (same schema, permuted columns, extra / lacking fields, differing dtypes, missing file), '
        'formats npy (both efficiency modes) / csv / parquet / pkl, keep_fields None / subsets / foreign names / empty, '
        'dtype conversion maps with exception lists, renaming dictionaries (simple, onto required names, chains, '
        'collisions, swaps), stage tables at configuration and dataset level (incl. the same name at both levels), '
        'data preparation adding / dropping fields; a case is non-trivial when it has >= 1 existing file and is distinct by hash')
TRUSTED = [
    'Coq 8.16.1 kernel incl. vm_compute (no native_compute)',
    'theorems closed under the global context (no axioms)',
    'translator/py2coq.py: reading of the block arithmetic, loop bounds, index expressions, field filters, stage masks and '
    'stage-table arguments of storage.py / datafields.py / dataset.py (kernels of G_load.v, each pinned by a lemma K_*)',
    'hand model M_Load.v of control flow, dict/array plumbing and error paths, validated by this correspondence',
    'files on disk are an oracle (schema + list of rows) that does not change while it is being loaded; the byte-level readers '
    'np.load / np.loadtxt / pyarrow.parquet.read_table / pickle.load are modelled as "return that table" — equality of the '
    'formats is established by the correspondence and the predicates, the theorems cover the code around the readers',
    'cell values are integers that every dtype involved holds exactly (a dtype conversion changes the dtype tag only); '
    'four dtypes int32/int64/float32/float64 with numpy promotion on np.append',
    'prepare_data (user data preparation functions) is an arbitrary function in the theorems; the correspondence uses add / drop / raise',
    'list(set(...)) in Dataset.load_data: only membership of the keep list is used by the loaders (proved for npy: C17_keep_membership)',
]

NAMES = ['ra', 'dec', 'time', 'run', 'ang_err', 'log_e', 'true_ra', 'mcw', 'x8', 'x9', 'x10', 'x11',
         'e', 'energy', 'log_energy']       # names that are substrings of one another (a str argument must not be a substring test)
DTYPES = [np.dtype(np.int32), np.dtype(np.int64), np.dtype(np.float32), np.dtype(np.float64)]
DT_CODE = {d: i for i, d in enumerate(DTYPES)}
ERRS = ('IndexError', 'KeyError', 'TypeError', 'ValueError', 'NameError', 'ZeroDivisionError',
        'RuntimeError', 'AssertionError', 'AttributeError')
IMPORTS = ('From Coq Require Import ZArith List. Import ListNotations. Open Scope Z_scope.\n'
           'From Sky Require Import Result PyList M_Load.\n')

try:
    import pyarrow as pa
    import pyarrow.parquet as pq
    HAVE_PQ = True
except Exception:           # pragma: no cover
    HAVE_PQ = False

_TMP = None


def tmpdir():
    global _TMP
    if _TMP is None:
        _TMP = tempfile.mkdtemp(prefix='skyverif-c17-')
        atexit.register(shutil.rmtree, _TMP, ignore_errors=True)
    return _TMP


def exc_kind(ex):
    for c in type(ex).__mro__:
        if c.__name__ in ERRS:
            return 'ZeroDivision' if c.__name__ == 'ZeroDivisionError' else c.__name__
    return type(ex).__name__


# ---------------------------------------------------------------- file specs
def rows_of(fs):
    if 'rows' in fs:
        return fs['rows']
    return [[a + b * i for (a, b) in fs['coef']] for i in range(fs['n'])]


def nrows(fs):
    return len(fs['rows']) if 'rows' in fs else fs['n']


def to_array(fs, all_f64=False):
    rows = rows_of(fs)
    dt = [(NAMES[n], np.float64 if all_f64 else DTYPES[d]) for n, d in fs['sch']]
    arr = np.zeros(len(rows), dtype=dt)
    for j, (n, d) in enumerate(fs['sch']):
        arr[NAMES[n]] = [r[j] for r in rows]
    return arr


_counter = [0]


def write_files(specs, fmt, header=None):
    """write the file specs in one format; a None spec is a path that does not exist"""
    paths = []
    for fs in specs:
        _counter[0] += 1
        p = os.path.join(tmpdir(), f'f{_counter[0]}.{fmt}')
        paths.append(p)
        if fs is None:
            continue
        arr = to_array(fs)
        if fmt == 'npy':
            np.save(p, arr)
        elif fmt == 'pkl':
            with open(p, 'wb') as f:
                pickle.dump(arr, f)
        elif fmt == 'parquet':
            pq.write_table(pa.table({n: arr[n] for n in arr.dtype.names}) if arr.dtype.names else pa.table({}), p)
        elif fmt == 'csv':
            with open(p, 'w') as f:
                f.write(csv_header(arr.dtype.names, header) + '\n')
                for r in rows_of(fs):
                    f.write(' '.join(repr(float(v)) for v in r) + '\n')
    return paths


def csv_header(names, header):
    if header is None:
        return '# ' + ' '.join(names)
    hc, hs, style = header
    if style == 'tight':
        return hc + ' '.join(names)
    if style == 'wide':
        return '  ' + hc + '   ' + '    '.join(names) + '   '
    if style == 'comma':
        return hc + ' ' + ' , '.join(names)
    return hc + hs.join(names)


def cleanup(paths):
    for p in paths:
        try:
            os.remove(p)
        except OSError:
            pass


def canon_table(t):
    out = []
    for n in t.field_name_list:
        a = t[n]
        vals = a.tolist()
        iv = [int(v) for v in vals]
        assert all(float(i) == float(v) for i, v in zip(iv, vals)), 'non-integer cell'
        out.append((NAMES.index(n), DT_CODE[a.dtype], iv))
    return out


# ---------------------------------------------------------------- Coq terms
def coq_file(fs):
    if fs is None:
        return 'None'
    sch = zpairs(fs['sch'])
    if 'rows' in fs:
        return f"(Some (mkFile {sch} [{'; '.join(zlist(r) for r in fs['rows'])}]))"
    return f"(Some (synth_file {sch} {zpairs(fs['coef'])} {fs['n']}))"


def coq_files(specs):
    return '[' + '; '.join(coq_file(f) for f in specs) + ']'


def coq_lopts(keep, conv, exc):
    k = 'None' if keep is None else f'(Some {zlist(keep)})'
    return f'(mkOpts {k} {zpairs(conv)} {zlist(exc)})'


PROJ_T = 'fun r => match r with Ok (t, n) => Ok (t, n) | Err e => Err e end'


def canon_model_table(t):
    return [(c[0], c[1][0], list(c[1][1])) for c in t]


def canon_model_res(v, with_opens=True):
    if isinstance(v, tuple) and v[0] == 'Err':
        return ['Err', v[1]]
    assert isinstance(v, tuple) and v[0] == 'Ok', v
    if with_opens:
        t, n = v[1]
        return ['Ok', canon_model_table(t), n]
    return ['Ok', canon_model_table(v[1])]


# ---------------------------------------------------------------- level 1: file loaders
class LoadCounter:
    def __enter__(self):
        self.n = 0
        self.orig = np.load

        def counting(*a, **k):
            self.n += 1
            return self.orig(*a, **k)
        np.load = counting
        return self

    def __exit__(self, *a):
        np.load = self.orig


def impl_loader(paths, keep, conv, exc, mode=None, count=False, as_str=False, ldr_kw=None):
    from skyllh.core.storage import create_FileLoader, DataFieldRecordArray
    keep_s = None if keep is None else [NAMES[k] for k in keep]
    conv_d = {DTYPES[a]: DTYPES[b] for a, b in conv}
    exc_s = [NAMES[k] for k in exc]
    if as_str:                      # the docstrings allow a single name as str
        if keep_s is not None and len(keep_s) == 1:
            keep_s = keep_s[0]
        if len(exc_s) == 1:
            exc_s = exc_s[0]
    try:
        with warnings.catch_warnings():
            warnings.simplefilter('ignore')
            with LoadCounter() as lc:
                kw = dict(keep_fields=keep_s, dtype_conversions=conv_d, dtype_conversion_except_fields=exc_s)
                if mode is not None:
                    kw['efficiency_mode'] = mode
                r = create_FileLoader(paths, **(ldr_kw or {})).load_data(**kw)
        if not isinstance(r, DataFieldRecordArray):
            return ['Raw', r]
        out = ['Ok', canon_table(r)]
        if count:
            out.append(lc.n)
        # len() must be the number of rows of every column
        if any(len(c[2]) != len(r) for c in out[1]):
            out = ['Ok-badlen', out[1], len(r)]
        return out
    except Exception as ex:
        return ['Err', exc_kind(ex)]


def oracle_l1(case, force_f64=False):
    """what the property demands of a file-loader result, from the generated
    tables alone.  Returns None when the property is silent (error cases)."""
    specs = case['files']
    if any(f is None for f in specs) or not specs:
        return None
    first = specs[0]
    keep = case['keep']
    names = [n for n, d in first['sch'] if keep is None or n in keep]
    out = []
    for n in names:
        vals = []
        dts = []
        for fs in specs:
            idx = [j for j, (m, d) in enumerate(fs['sch']) if m == n]
            if not idx:
                return None       # a later file lacks a field: KeyError, nothing demanded
            j = idx[0]
            vals += [r[j] for r in rows_of(fs)]
            d = 3 if force_f64 else fs['sch'][j][1]
            if n not in case['exc']:
                d = dict(case['conv']).get(d, d)
            dts.append(DTYPES[d])
        out.append((n, DT_CODE[np.result_type(*dts)], vals))
    return out


def same_schema(specs):
    return all(f is not None and f['sch'] == specs[0]['sch'] for f in specs)


def run_l1(ctx, case, exprs, checks):
    specs = case['files']
    keep, conv, exc = case['keep'], case['conv'], case['exc']
    files_t = coq_files(specs)
    o_t = coq_lopts(keep, conv, exc)
    res = {}
    # npy, both modes (+ default mode None, + an invalid mode)
    p = write_files(specs, 'npy')
    res['memory'] = impl_loader(p, keep, conv, exc, 'memory', count=True)     # first: np.empty must not find the time-mode arrays
    res['time'] = impl_loader(p, keep, conv, exc, 'time', count=True)
    res['none'] = impl_loader(p, keep, conv, exc, None, count=True)
    if case.get('badmode'):
        res['bad'] = impl_loader(p, keep, conv, exc, 'fast')
        exprs.append(f'npy_load MBad {files_t} {o_t}')
        checks.append(('l1.npy.badmode', case, res['bad'], 'opens'))
    # a single name given as str is the one-element list; the mode strings are exact
    if ((keep is not None and len(keep) == 1) or len(exc) == 1) and not is_big(case):
        ctx.count('l1:str-argument')
        for mode in ('time', 'memory'):
            r = impl_loader(p, keep, conv, exc, mode, count=True, as_str=True)
            if r != res[mode]:
                ctx.violation('NPYFileLoader.load_data', 'str-argument-differs-from-list',
                              'keep_fields / dtype_conversion_except_fields given as str load differently from the one-element list',
                              case={'files': specs, 'keep': keep, 'conv': conv, 'exc': exc, 'level': 1, 'as_str': True},
                              impl={'list': res[mode], 'str': r})
        for fmt_, key_, site_ in (('csv', 'csv', 'TextFileLoader.load_data'), ('parquet', 'pq', 'ParquetFileLoader.load_data')):
            if fmt_ == 'parquet' and not HAVE_PQ:
                continue
            p3 = write_files(specs, fmt_)
            r = impl_loader(p3, keep, conv, exc, as_str=True)
            r0 = impl_loader(p3, keep, conv, exc)
            cleanup(p3)
            if r != r0:
                ctx.violation(site_, 'str-argument-differs-from-list',
                              'keep_fields / dtype_conversion_except_fields given as str load differently from the one-element list',
                              case={'files': specs, 'keep': keep, 'conv': conv, 'exc': exc, 'level': 1, 'as_str': True},
                              impl={'list': r0, 'str': r})
    if case.get('badmode'):
        for bad, want in (('Time', 'ValueError'), ('MEMORY', 'ValueError'), ('', 'ValueError'), ('time ', 'ValueError'), (1, 'TypeError')):
            r = impl_loader(p, keep, conv, exc, bad)
            if r != ['Err', want]:
                ctx.violation('NPYFileLoader.load_data', 'invalid-mode-accepted', f'efficiency_mode={bad!r} is not rejected with {want}',
                              case={'files': specs, 'keep': keep, 'conv': conv, 'exc': exc, 'level': 1, 'mode': repr(bad)}, impl=r)
    cleanup(p)
    for mode, ctor in (('time', 'MTime'), ('memory', 'MMemory'), ('none', 'MNone')):
        exprs.append(f'npy_load {ctor} {files_t} {o_t}')
        checks.append((f'l1.npy.{mode}', case, res[mode], 'opens'))
    # csv
    p = write_files(specs, 'csv')
    res['csv'] = impl_loader(p, keep, conv, exc)
    # the same csv tables with other header conventions: comment string, separator, spacing
    if all(f is not None for f in specs) and specs and not is_big(case):
        for hc, hs, style in (('#', None, 'tight'), ('%', None, 'wide'), ('#', ',', 'comma'), ('//', ';', 'semi')):
            p2 = write_files(specs, 'csv', header=(hc, hs, style))
            r2 = impl_loader(p2, keep, conv, exc, ldr_kw=dict(header_comment=hc, header_separator=hs))
            cleanup(p2)
            ctx.count('csv-header:' + style)
            if r2 != res['csv']:
                ctx.violation('TextFileLoader.load_data', 'header-style-changes-result',
                              f'header written as {style!r} (comment {hc!r}, separator {hs!r}) loads differently',
                              case={'files': specs, 'keep': keep, 'conv': conv, 'exc': exc, 'level': 1, 'header': [hc, hs, style]},
                              impl={'default': res['csv'], 'styled': r2})
    cleanup(p)
    exprs.append(f'txt_load {files_t} {o_t}')
    checks.append(('l1.csv', case, res['csv'], 'opens-ignored'))
    # parquet
    if HAVE_PQ:
        p = write_files(specs, 'parquet')
        res['pq'] = impl_loader(p, keep, conv, exc)
        cleanup(p)
        exprs.append(f'pq_load {files_t} {o_t}')
        checks.append(('l1.parquet', case, res['pq'], 'table'))
    else:
        ctx.count('parquet_skipped_no_pyarrow')
    # pkl: the raw objects
    p = write_files(specs, 'pkl')
    r = impl_loader(p, keep, conv, exc)
    cleanup(p)
    if r[0] == 'Raw':
        objs = r[1] if isinstance(r[1], list) else [r[1]]
        many = 1 if isinstance(r[1], list) else 0
        try:
            r = ['Ok', many, [([(NAMES.index(n), DT_CODE[o.dtype.fields[n][0]]) for n in o.dtype.names],
                               [[int(v) for v in row] for row in o.tolist()]) for o in objs]]
        except Exception as ex:     # not structured arrays
            r = ['Raw-unreadable', repr(ex)]
    res['pkl'] = r
    exprs.append(f'match pkl_load {files_t} with Ok (PklOne f) => Ok (0, [(f_schema f, f_rows f)]) '
                 f'| Ok (PklMany l) => Ok (1, map (fun f => (f_schema f, f_rows f)) l) | Err e => Err e end')
    checks.append(('l1.pkl', case, res['pkl'], 'pkl'))

    # ---------------- predicates on the implementation
    def tab(r):
        return r[1] if r[0] == 'Ok' else None
    cs = {'files': specs, 'keep': keep, 'conv': conv, 'exc': exc, 'level': 1}
    if res['time'][0] == 'Ok-badlen' or res['memory'][0] == 'Ok-badlen':
        ctx.violation('NPYFileLoader.load_data', 'len-differs-from-columns', 'len(result) differs from the column length',
                      case=cs, impl=res['time'])
    if res['time'][:2] != res['memory'][:2]:
        ctx.violation('NPYFileLoader.load_data', 'memory-mode-differs-from-time-mode',
                      'the two efficiency modes return different results', case=cs,
                      impl={'time': res['time'], 'memory': res['memory']},
                      predicate='load(memory) == load(time)')
    if res['none'][:2] != res['time'][:2]:
        ctx.violation('NPYFileLoader.load_data', 'default-mode-differs-from-time-mode', 'efficiency_mode=None is not the time mode',
                      case=cs, impl={'time': res['time'], 'none': res['none']})
    want = oracle_l1(case)
    if want is not None:
        for k, site in (('time', 'NPYFileLoader.load_data[time]'), ('memory', 'NPYFileLoader.load_data[memory]'),
                        ('pq', 'ParquetFileLoader.load_data')):
            if k not in res:
                continue
            if k == 'pq' and not same_schema(specs):
                continue          # pyarrow.concat_tables demands equal schemas; the property speaks of the same table
            if res[k][0] != 'Ok':
                ctx.violation(site, 'raises-' + res[k][1], 'raises on existing, compatible files', case=cs, impl=res[k],
                              predicate='every row of the listed files is returned')
            elif tab(res[k]) != want:
                ctx.violation(site, 'wrong-table', 'result is not (file fields ∩ keep) with every row once in file order '
                              'and the dtype map applied', case=cs, impl=res[k], model=want,
                              predicate='rows of file 1, then file 2, ...; fields of file 1 ∩ keep; dtype map except exceptions')
        want64 = oracle_l1(case, force_f64=True)
        if want64:                # csv raises when no column is selected: outside the statement
            if res['csv'][0] != 'Ok':
                ctx.violation('TextFileLoader.load_data', 'raises-' + res['csv'][1], 'raises on existing, compatible files',
                              case=cs, impl=res['csv'])
            elif tab(res['csv']) != want64:
                ctx.violation('TextFileLoader.load_data', 'wrong-table', 'csv result differs from the table',
                              case=cs, impl=res['csv'], model=want64)
        # formats among each other (names, values; dtypes where the file dtypes agree)
        if 'pq' in res and same_schema(specs) and res['pq'] != res['time'][:2]:
            ctx.violation('ParquetFileLoader.load_data', 'differs-from-npy', 'parquet and npy results differ for the same table',
                          case=cs, impl={'npy': res['time'], 'parquet': res['pq']})
        if want and res['csv'][0] == 'Ok' and res['time'][0] == 'Ok':
            a = [(n, v) for n, d, v in res['csv'][1]]
            b = [(n, v) for n, d, v in res['time'][1]]
            if a != b:
                ctx.violation('TextFileLoader.load_data', 'differs-from-npy', 'csv and npy hold different cells', case=cs,
                              impl={'npy': res['time'], 'csv': res['csv']})
        if res['pkl'][0] == 'Ok':
            got = res['pkl'][2]
            exp = [([tuple(x) for x in f['sch']], rows_of(f)) for f in specs]
            if [([tuple(x) for x in s], r) for s, r in got] != exp:
                ctx.violation('PKLFileLoader.load_data', 'wrong-objects', 'unpickled objects differ from the stored tables',
                              case=cs, impl=res['pkl'])
    if any(f is None for f in specs):
        for k in ('time', 'memory', 'csv', 'pq', 'pkl'):
            if k in res and res[k][0] != 'Err':
                ctx.violation('FileLoader.load_data', 'missing-file-not-reported', f'{k}: a missing file is not reported',
                              case=cs, impl=res[k], predicate='missing file -> error')


def compare(ctx, checks, vals):
    for (site, case, impl, how), v in zip(checks, vals):
        ctx.corr_cases += 1
        try:
            if how == 'opens':
                m = canon_model_res(v)
                if m[0] == 'Ok' and len(impl) == 2:
                    m = m[:2]
            elif how == 'opens-ignored':
                m = canon_model_res(v)[:2]
            elif how == 'table':
                m = canon_model_res(v, with_opens=False)
            elif how == 'pkl':
                if v[0] == 'Err':
                    m = ['Err', v[1]]
                else:
                    many, l = v[1]
                    m = ['Ok', many, [([tuple(x) for x in s], [list(r) for r in rows]) for s, rows in l]]
                    if impl[0] == 'Ok':
                        impl = ['Ok', impl[1], [([tuple(x) for x in s], [list(r) for r in rows]) for s, rows in impl[2]]]
            elif how == 'data':
                m = canon_model_data(v)
            else:
                raise ValueError(how)
        except Exception as ex:
            m = ['unparsed', repr(v)[:300], str(ex)]
        imp = impl
        if imp and imp[0] == 'Ok' and how in ('opens', 'opens-ignored', 'table'):
            imp = ['Ok', [tuple(c) for c in imp[1]]] + list(imp[2:])
            m = ['Ok', [tuple(c) for c in m[1]]] + list(m[2:]) if m[0] == 'Ok' else m
        if m != imp:
            ctx.disagree(site, case, _short(imp), _short(m))


def _short(x, lim=4000):
    s = repr(x)
    return x if len(s) <= lim else s[:lim] + '...'


# ---------------------------------------------------------------- level 2: Dataset
def coq_stage(tbl):
    return zpairs(tbl)


def coq_ds(case, fmt):
    f = {'npy': 'FNpy', 'csv': 'FCsv', 'parquet': 'FParquet'}[fmt]
    lt = 'None' if case['livetime'] is None else f"(Some {case['livetime']})"
    return (f"(mkDs {coq_stage(case['cfg'])} {coq_stage(case['dsf'])} {f} {coq_files(case['exp'])} "
            f"{coq_files(case['mc'])} {zpairs(case['exp_ren'])} {zpairs(case['mc_ren'])} {lt})")


def coq_do(case, mode):
    exc = 'None' if case['exc'] is None else f"(Some {zlist(case['exc'])})"
    return f"(mkDo {zlist(case['keep'])} {zpairs(case['conv'])} {exc} {mode})"


def coq_prep(ops):
    t = []
    for op in ops:
        if op[0] == 'addexp':
            t.append(f'PAddExp {op[1]} {op[2]}')
        elif op[0] == 'addmc':
            t.append(f'PAddMc {op[1]} {op[2]}')
        elif op[0] == 'dropexp':
            t.append(f'PDropExp {op[1]}')
        else:
            t.append('PRaise')
    return '[' + '; '.join(t) + ']'


PROJ_D = 'match {} with Ok d => Ok (dd_exp d, dd_mc d, dd_livetime d) | Err e => Err e end'


def canon_model_data(v):
    if v[0] == 'Err':
        return ['Err', v[1]]
    (e, m, lt) = v[1] if len(v[1]) == 3 else (v[1][0][0], v[1][0][1], v[1][1])

    def opt(x):
        if x == 'None':
            return None
        assert x[0] == 'Some'
        return x[1]
    e, m, lt = opt(e), opt(m), opt(lt)
    return ['Ok', None if e is None else [tuple(c) for c in canon_model_table(e)],
            None if m is None else [tuple(c) for c in canon_model_table(m)], lt]


def make_prep(ops):
    fs = []
    for op in ops:
        if op[0] in ('addexp', 'addmc'):
            def f(data, op=op):
                t = data.exp if op[0] == 'addexp' else data.mc
                if t is None:
                    return
                new, src = NAMES[op[1]], NAMES[op[2]]
                if new not in t.field_name_list:
                    t.append_field(new, t[src].astype(np.float64))
        elif op[0] == 'dropexp':
            def f(data, op=op):
                if data.exp is not None:
                    data.exp.remove_field(NAMES[op[1]])
        else:
            def f(data):
                raise RuntimeError('data preparation failed')
        fs.append(f)
    return fs


def exc_arg(case):
    """dtc_except_fields: None, a list of names, or (flag `exc_str`) a single name as str"""
    if case['exc'] is None:
        return None
    l = [NAMES[k] for k in case['exc']]
    if case.get('exc_str') and len(l) == 1:
        return l[0]
    return l


def impl_dataset(case, fmt, mode, prepare):
    from skyllh.core.config import Config
    from skyllh.core.dataset import Dataset
    cfg = Config()
    cfg['repository']['download_from_origin'] = False
    cfg['datafields'].clear()
    for n, m in case['cfg']:
        cfg['datafields'][NAMES[n]] = m
    pe = write_files(case['exp'], fmt)
    pm = write_files(case['mc'], fmt)
    try:
        ds = Dataset(cfg=cfg, name='verif', exp_pathfilenames=pe or None, mc_pathfilenames=pm or None,
                     livetime=case['livetime'], default_sub_path_fmt='', version=1, base_path=tmpdir())
        ds.datafields = {NAMES[n]: m for n, m in case['dsf']}
        ds.exp_field_name_renaming_dict = {NAMES[a]: NAMES[b] for a, b in case['exp_ren']}
        ds.mc_field_name_renaming_dict = {NAMES[a]: NAMES[b] for a, b in case['mc_ren']}
        for f in make_prep(case['prep']):
            ds.add_data_preparation(f)
        kw = dict(keep_fields=[NAMES[k] for k in case['keep']],
                  dtc_dict={DTYPES[a]: DTYPES[b] for a, b in case['conv']},
                  dtc_except_fields=exc_arg(case),
                  efficiency_mode=mode)
        with warnings.catch_warnings():
            warnings.simplefilter('ignore')
            d = ds.load_and_prepare_data(**kw) if prepare else ds.load_data(**kw)
        lt = d.livetime
        return ['Ok', None if d.exp is None else [tuple(c) for c in canon_table(d.exp)],
                None if d.mc is None else [tuple(c) for c in canon_table(d.mc)],
                None if lt is None else int(lt)]
    except Exception as ex:
        return ['Err', exc_kind(ex)]
    finally:
        cleanup(pe + pm)


def merged_stage(case):
    d = dict((n, m) for n, m in case['cfg'])
    d.update(dict((n, m) for n, m in case['dsf']))
    return d


def simple_renaming(ren, file_names):
    """no chains, collisions or duplicates: every old name at most once, new names
    fresh (not a file field, not an old name, not twice)"""
    olds = [a for a, b in ren]
    news = [b for a, b in ren if a in file_names]
    return (len(set(news)) == len(news) and not (set(news) & set(file_names)) and not (set(news) & set(olds))
            and all(a != b for a, b in ren))


def run_l2(ctx, case, exprs, checks):
    cs = dict(case)
    res = {}
    variants = [('npy', 'time', 'MTime'), ('npy', 'memory', 'MMemory'), ('csv', None, 'MNone')]
    if HAVE_PQ:
        variants.append(('parquet', None, 'MNone'))
    for fmt, mode, ctor in variants:
        key = f'{fmt}.{mode or "default"}'
        res[key] = impl_dataset(case, fmt, mode, True)
        exprs.append(PROJ_D.format(f'load_and_prepare {coq_ds(case, fmt)} {coq_do(case, ctor)} (run_prep {coq_prep(case["prep"])})'))
        checks.append((f'l2.load_and_prepare.{key}', case, res[key], 'data'))
    ld = impl_dataset(case, 'npy', 'time', False)
    exprs.append(PROJ_D.format(f'load_data {coq_ds(case, "npy")} {coq_do(case, "MTime")}'))
    checks.append(('l2.load_data.npy.time', case, ld, 'data'))
    # pkl at the dataset level: PKLFileLoader does not return a table (known finding)
    if case.get('try_pkl'):
        r = impl_dataset(case, 'pkl', None, True)
        if r != res['npy.time']:
            ctx.violation('Dataset.load_and_prepare_data[pkl]', 'pkl-files-not-loaded-as-table',
                          'a dataset whose files are .pkl does not load like the same table stored as .npy',
                          case=cs, impl={'pkl': r, 'npy': res['npy.time']},
                          predicate='result identical for all supported file formats')
    # ---------------- predicates
    stage = merged_stage(case)
    req_exp = [n for n, m in stage.items() if m & 4]
    req_mc = [n for n, m in stage.items() if m & 12]
    for key, r in res.items():
        if r[0] != 'Ok':
            continue
        for part, tbl, req in (('exp', r[1], req_exp), ('mc', r[2], req_mc)):
            if tbl is None:
                continue
            have = [c[0] for c in tbl]
            miss = [n for n in req if n not in have]
            if miss:
                ctx.violation('Dataset.load_and_prepare_data', 'required-field-missing-without-error',
                              f'{key}: analysis-stage field(s) {[NAMES[n] for n in miss]} absent from the {part} data, no error raised',
                              case=cs, impl=r, predicate='stage mask includes the analysis stage -> present after preparation, or an error')
            extra = [n for n in have if n not in req and n not in case['keep']]
            if extra:
                ctx.violation('Dataset.load_and_prepare_data', 'unrequested-field-kept',
                              f'{key}: field(s) {[NAMES[n] for n in extra]} neither required nor requested', case=cs, impl=r)
        if r[3] is None:
            ctx.violation('Dataset.load_and_prepare_data', 'no-livetime-accepted', 'no livetime, no error', case=cs, impl=r)
    plain = (not case['exp_ren'] and not case['mc_ren'] and not case['prep'] and case['livetime'] is not None
             and all(f is not None for f in case['exp'] + case['mc'])
             and all(same_schema(part) for part in (case['exp'], case['mc']) if part))
    if plain:
        miss = []
        if case['exp']:
            have = [n for n, d in case['exp'][0]['sch']]
            miss += [n for n in req_exp if n not in have]
        if case['mc']:
            have = [n for n, d in case['mc'][0]['sch']]
            miss += [n for n in req_mc if n not in have]
        r = res['npy.time']
        if not miss and r == ['Err', 'KeyError']:
            ctx.violation('Dataset.load_and_prepare_data', 'spurious-KeyError',
                          'every analysis-stage field of the merged stage table (dataset overrides configuration) is in the files, '
                          'yet a KeyError is raised', case=cs, impl=r,
                          predicate='no error when all required fields are present')
        if miss and r[0] == 'Ok':
            ctx.violation('Dataset.load_and_prepare_data', 'required-field-missing-without-error',
                          f'analysis-stage field(s) {[NAMES[n] for n in miss]} are not in the files, no error raised',
                          case=cs, impl=r, predicate='missing required field -> error')
        ctx.count('plain-stage-oracle:' + ('missing' if miss else 'complete'))
    if any(f is None for f in case['exp'] + case['mc']):
        for key, r in list(res.items()) + [('load_data', ld)]:
            if r[0] != 'Err':
                ctx.violation('Dataset.load_data', 'missing-file-not-reported', f'{key}: a missing file is not reported',
                              case=cs, impl=r, predicate='missing file -> error')
    if res['npy.time'] != res['npy.memory']:
        ctx.violation('Dataset.load_and_prepare_data', 'memory-mode-differs-from-time-mode', 'modes differ', case=cs,
                      impl={'time': res['npy.time'], 'memory': res['npy.memory']})
    all_specs = [f for f in case['exp'] + case['mc'] if f is not None]
    uniform = bool(all_specs) and all(same_schema(part) for part in (case['exp'], case['mc']) if part)
    if uniform and 'parquet.default' in res and res['parquet.default'] != res['npy.time']:
        ctx.violation('Dataset.load_and_prepare_data', 'parquet-differs-from-npy', 'formats differ', case=cs,
                      impl={'npy': res['npy.time'], 'parquet': res['parquet.default']})
    if uniform and res['csv.default'][0] == 'Ok' and res['npy.time'][0] == 'Ok':
        def nv(t):
            return None if t is None else [(n, v) for n, d, v in t]
        if [nv(res['csv.default'][i]) for i in (1, 2)] != [nv(res['npy.time'][i]) for i in (1, 2)]:
            ctx.violation('Dataset.load_and_prepare_data', 'csv-differs-from-npy', 'formats differ in cells', case=cs,
                          impl={'npy': res['npy.time'], 'csv': res['csv.default']})
    # every row once, in file order (load_data, simple renamings)
    if ld[0] == 'Ok':
        for part, tbl, ren in (('exp', ld[1], case['exp_ren']), ('mc', ld[2], case['mc_ren'])):
            specs = case[part]
            if tbl is None or not specs or any(f is None for f in specs):
                continue
            fnames = [n for n, d in specs[0]['sch']]
            if not simple_renaming(ren, fnames):
                continue
            back = {b: a for a, b in ren}
            for (n, d, vals) in tbl:
                o = back.get(n, n) if back.get(n, n) in fnames else n
                want = []
                ok = True
                for f in specs:
                    idx = [j for j, (m, _) in enumerate(f['sch']) if m == o]
                    if not idx:
                        ok = False
                        break
                    want += [r[idx[0]] for r in rows_of(f)]
                if ok and vals != want:
                    ctx.violation('Dataset.load_data', 'rows-not-once-in-file-order',
                                  f'{part} field {NAMES[n]} is not the concatenation of the file columns', case=cs, impl=ld,
                                  predicate='every row of the listed files exactly once, in file order')


# ---------------------------------------------------------------- history probes
# Metamorphic probes on the REAL objects (no model needed): the result of a load
# is a function of the files and the arguments of THAT call only.  One loader /
# one Dataset used for several calls, other calls interleaved, two instances built
# before first use (also two Datasets sharing one Config), arguments snapshotted,
# results owned by the caller, files unchanged on disk.
import copy as _copy
import hashlib as _hashlib


def _file_hashes(paths):
    out = []
    for p in paths:
        try:
            with open(p, 'rb') as f:
                out.append(_hashlib.sha1(f.read()).hexdigest())
        except OSError:
            out.append(None)
    return out


def permute_spec(fs, rng):
    """the same table with the columns in another order"""
    if fs is None:
        return None
    k = len(fs['sch'])
    perm = list(range(k))
    rng.shuffle(perm)
    out = {'sch': [list(fs['sch'][j]) for j in perm]}
    if 'rows' in fs:
        out['rows'] = [[r[j] for j in perm] for r in fs['rows']]
    else:
        out['coef'] = [list(fs['coef'][j]) for j in perm]
        out['n'] = fs['n']
    return out


def _loader_call(ldr, keep_s, conv_d, exc_s, mode):
    from skyllh.core.storage import DataFieldRecordArray
    kw = dict(keep_fields=keep_s, dtype_conversions=conv_d, dtype_conversion_except_fields=exc_s)
    if mode is not None:
        kw['efficiency_mode'] = mode
    try:
        with warnings.catch_warnings():
            warnings.simplefilter('ignore')
            r = ldr.load_data(**kw)
        if not isinstance(r, DataFieldRecordArray):
            return ['Raw', None], r
        return ['Ok', canon_table(r)], r
    except Exception as ex:
        return ['Err', exc_kind(ex)], None


def history_l1(ctx, case, rng):
    from skyllh.core.storage import create_FileLoader
    specs = case['files']
    alt = [permute_spec(f, rng) for f in specs]
    if rng.random() < 0.5 and any(f is not None for f in alt):
        alt = list(reversed(alt))
    keep, conv, exc = case['keep'], case['conv'], case['exc']
    fmts = [('npy', 'time'), ('npy', 'memory'), ('csv', None)] + ([('parquet', None)] if HAVE_PQ else [])
    for fmt, mode in fmts:
        site = f'FileLoader.load_data[history:{fmt}{"/" + mode if mode else ""}]'
        cs = {'level': 1, 'files': specs, 'alt_files': alt, 'keep': keep, 'conv': conv, 'exc': exc, 'history': True}
        pa_, pb_ = write_files(specs, fmt), write_files(alt, fmt)
        try:
            ctx.count('history:l1')
            keep_s = None if keep is None else [NAMES[k] for k in keep]
            conv_d = {DTYPES[a]: DTYPES[b] for a, b in conv}
            exc_s = [NAMES[k] for k in exc]
            snap = _copy.deepcopy((keep_s, conv_d, exc_s, list(pa_), list(pb_)))
            hashes = _file_hashes(pa_ + pb_)
            # fresh twins (one loader, one call each)
            twin_a, _ = _loader_call(create_FileLoader(list(pa_)), _copy.deepcopy(keep_s), dict(conv_d), list(exc_s), mode)
            twin_b, _ = _loader_call(create_FileLoader(list(pb_)), _copy.deepcopy(keep_s), dict(conv_d), list(exc_s), mode)
            twin_a_all, _ = _loader_call(create_FileLoader(list(pa_)), None, {}, [], mode)
            # two instances built before first use, called alternately with the SAME argument objects
            la, lb = create_FileLoader(pa_), create_FileLoader(pb_)
            a1, ra1 = _loader_call(la, keep_s, conv_d, exc_s, mode)
            b1, rb1 = _loader_call(lb, keep_s, conv_d, exc_s, mode)
            a2, ra2 = _loader_call(la, keep_s, conv_d, exc_s, mode)         # repeat
            x, rx = _loader_call(la, None, {}, [], mode)                      # interleave: other arguments
            other_mode = {'time': 'memory', 'memory': 'time'}.get(mode)
            if other_mode:
                _loader_call(la, keep_s, conv_d, exc_s, other_mode)          # interleave: other mode
            # interleave: the same conversion keys with other targets, another keep list of the same length
            conv2 = {k: DTYPES[(DT_CODE[v] + 1) % 4] for k, v in conv_d.items()}
            fn_all = [NAMES[n] for n, d in (specs[0]['sch'] if specs and specs[0] else [])]
            keep2 = None if keep_s is None else ([n for n in fn_all if n not in keep_s] + list(keep_s))[:len(keep_s)]
            y, _ = _loader_call(la, keep2, conv2, exc_s, mode)
            twin_y, _ = _loader_call(create_FileLoader(list(pa_)), keep2, dict(conv2), list(exc_s), mode)
            if y != twin_y:
                ctx.violation(site, 'interleaved-call-differs', 'a call with other conversion targets / keep names on a used loader '
                              'differs from a fresh loader', case=cs, impl={'got': y, 'twin': twin_y})
            b2, rb2 = _loader_call(lb, keep_s, conv_d, exc_s, mode)
            a3, ra3 = _loader_call(la, keep_s, conv_d, exc_s, mode)
            if a1 != twin_a or b1 != twin_b:
                ctx.violation(site, 'two-loaders-interfere', 'first calls of two loaders built before use differ from fresh loaders',
                              case=cs, impl={'a': a1, 'twin_a': twin_a, 'b': b1, 'twin_b': twin_b})
            if a2 != a1:
                ctx.violation(site, 'second-call-differs', 'the same loader called twice with the same arguments returns different results',
                              case=cs, impl={'first': a1, 'second': a2})
            if a3 != twin_a or b2 != twin_b or x != twin_a_all:
                ctx.violation(site, 'interleaved-call-differs', 'a call after other calls (other arguments / mode / loader) differs from a fresh loader',
                              case=cs, impl={'a3': a3, 'twin_a': twin_a, 'b2': b2, 'twin_b': twin_b, 'x': x, 'twin_all': twin_a_all})
            # twin-independent (module-level state would spoil a fresh twin as well): the last call vs the generated tables
            want = oracle_l1(case, force_f64=(fmt == 'csv'))
            if want and (fmt != 'parquet' or same_schema(specs)) and a3 != ['Ok', want]:
                ctx.violation(site, 'wrong-table-after-history', 'after a history of calls the result is not the table of the files',
                              case=cs, impl=a3, model=want)
            # results are owned by the caller
            if ra1 is not None and a1[0] == 'Ok' and canon_table(ra1) != a1[1]:
                ctx.violation(site, 'earlier-result-changed', 'the result of the first call changed during later calls', case=cs,
                              impl={'first_then': a1, 'first_now': ['Ok', canon_table(ra1)]})
            for (r1, r2) in ((ra1, ra2), (ra1, ra3), (ra1, rx), (rb1, rb2)):
                if r1 is not None and r2 is not None:
                    for n1 in r1.field_name_list:
                        for n2 in r2.field_name_list:
                            if len(r1[n1]) and np.shares_memory(r1[n1], r2[n2]):
                                ctx.violation(site, 'results-share-memory', 'results of different calls share memory', case=cs,
                                              impl={'fields': [n1, n2]})
            # damage the first result, load again
            if ra1 is not None:
                for n1 in ra1.field_name_list:
                    if ra1[n1].flags.writeable and len(ra1[n1]):
                        ra1[n1][...] = 99
                a4, _ = _loader_call(la, keep_s, conv_d, exc_s, mode)
                if a4 != twin_a:
                    ctx.violation(site, 'result-aliases-loader-state', 'writing into a returned table changes the next load', case=cs,
                                  impl={'after': a4, 'twin': twin_a})
            # the loader re-used for another file list and back
            la.pathfilename_list = pb_
            c1, _ = _loader_call(la, keep_s, conv_d, exc_s, mode)
            la.pathfilename_list = pa_
            c2, _ = _loader_call(la, keep_s, conv_d, exc_s, mode)
            if c1 != twin_b or c2 != twin_a:
                ctx.violation(site, 'stale-after-pathfilename-list-change', 'a loader given another file list does not load like a fresh loader',
                              case=cs, impl={'on_b': c1, 'twin_b': twin_b, 'back_on_a': c2, 'twin_a': twin_a})
            # arguments and files are inputs
            if (keep_s, conv_d, exc_s, list(pa_), list(pb_)) != snap:
                ctx.violation(site, 'argument-modified', 'keep_fields / dtype_conversions / except fields / path list modified by load_data',
                              case=cs, impl={'now': repr((keep_s, conv_d, exc_s)), 'before': repr(snap[:3])})
            if _file_hashes(pa_ + pb_) != hashes:
                ctx.violation(site, 'file-modified', 'a data file changed on disk while being loaded', case=cs)
        finally:
            cleanup(pa_ + pb_)


def build_dataset(case, fmt, cfg=None):
    """the real Dataset for a level-2 case (files written; caller cleans up)"""
    from skyllh.core.config import Config
    from skyllh.core.dataset import Dataset
    if cfg is None:
        cfg = Config()
        cfg['repository']['download_from_origin'] = False
        cfg['datafields'].clear()
        for n, m in case['cfg']:
            cfg['datafields'][NAMES[n]] = m
    pe = write_files(case['exp'], fmt)
    pm = write_files(case['mc'], fmt)
    ds = Dataset(cfg=cfg, name='verif', exp_pathfilenames=pe or None, mc_pathfilenames=pm or None,
                 livetime=case['livetime'], default_sub_path_fmt='', version=1, base_path=tmpdir())
    ds.datafields = {NAMES[n]: m for n, m in case['dsf']}
    ds.exp_field_name_renaming_dict = {NAMES[a]: NAMES[b] for a, b in case['exp_ren']}
    ds.mc_field_name_renaming_dict = {NAMES[a]: NAMES[b] for a, b in case['mc_ren']}
    for f in make_prep(case['prep']):
        ds.add_data_preparation(f)
    return ds, cfg, pe + pm


def ds_kwargs(case, mode):
    return dict(keep_fields=[NAMES[k] for k in case['keep']],
                dtc_dict={DTYPES[a]: DTYPES[b] for a, b in case['conv']},
                dtc_except_fields=exc_arg(case),
                efficiency_mode=mode)


def ds_call(ds, kw, prepare=True):
    try:
        with warnings.catch_warnings():
            warnings.simplefilter('ignore')
            d = ds.load_and_prepare_data(**kw) if prepare else ds.load_data(**kw)
        lt = d.livetime
        return ['Ok', None if d.exp is None else [tuple(c) for c in canon_table(d.exp)],
                None if d.mc is None else [tuple(c) for c in canon_table(d.mc)],
                None if lt is None else int(lt)], d
    except Exception as ex:
        return ['Err', exc_kind(ex)], None


def ds_state(ds, cfg):
    return _copy.deepcopy((dict(ds.datafields), dict(ds.exp_field_name_renaming_dict), dict(ds.mc_field_name_renaming_dict),
                           list(ds.exp_pathfilename_list), list(ds.mc_pathfilename_list), dict(cfg['datafields']), ds.livetime))


def history_l2(ctx, case, other, rng):
    """`other`: a second level-2 case; its Dataset shares the Config of the first"""
    fmts = ['npy', 'csv'] + (['parquet'] if HAVE_PQ else [])
    fmt = rng.choice(fmts)
    mode = rng.choice(['time', 'memory']) if fmt == 'npy' else None
    site = f'Dataset.load_and_prepare_data[history:{fmt}]'
    other = dict(other, cfg=case['cfg'])            # shares the Config
    cs = {'level': 2, 'history': True, 'fmt': fmt, 'mode': mode, 'case': case, 'other': other}
    ctx.count('history:l2')
    paths = []
    try:
        twin_a = impl_dataset(case, fmt, mode, True)
        twin_a_ld = impl_dataset(case, fmt, mode, False)
        twin_b = impl_dataset(other, fmt, mode, True)
        wide = dict(case, keep=list(range(len(NAMES))), conv=[], exc=None)
        twin_wide = impl_dataset(wide, fmt, mode, True)
        # two Datasets sharing one Config, built before first use
        dsa, cfg, p1 = build_dataset(case, fmt)
        dsb, _, p2 = build_dataset(other, fmt, cfg=cfg)
        paths = p1 + p2
        kwa, kwb = ds_kwargs(case, mode), ds_kwargs(other, mode)
        snap_kw = _copy.deepcopy((kwa, kwb))
        st_a, st_b = ds_state(dsa, cfg), ds_state(dsb, cfg)
        hashes = _file_hashes(paths)
        a1, da1 = ds_call(dsa, kwa)
        b1, db1 = ds_call(dsb, kwb)
        a2, da2 = ds_call(dsa, kwa)                                  # the same Dataset loaded twice, same argument objects
        w, _ = ds_call(dsa, ds_kwargs(wide, mode))                    # interleave: other keep_fields / no conversion
        ld, _ = ds_call(dsa, kwa, prepare=False)                      # interleave: load_data
        b2, db2 = ds_call(dsb, kwb)
        a3, da3 = ds_call(dsa, kwa)
        if a1 != twin_a or b1 != twin_b:
            ctx.violation(site, 'datasets-sharing-config-interfere', 'two datasets sharing one Config differ from datasets with their own Config',
                          case=cs, impl={'a': a1, 'twin_a': twin_a, 'b': b1, 'twin_b': twin_b})
        if a2 != a1:
            ctx.violation(site, 'second-load-differs', 'one Dataset loaded twice with the same arguments gives different results',
                          case=cs, impl={'first': a1, 'second': a2})
        if a3 != twin_a or b2 != twin_b or w != twin_wide or ld != twin_a_ld:
            ctx.violation(site, 'interleaved-load-differs', 'a load after other loads (other arguments / other dataset / load_data) differs from a fresh Dataset',
                          case=cs, impl={'a3': a3, 'twin_a': twin_a, 'b2': b2, 'twin_b': twin_b, 'wide': w, 'twin_wide': twin_wide,
                                         'load_data': ld, 'twin_load_data': twin_a_ld})
        if (kwa, kwb) != snap_kw:
            ctx.violation(site, 'argument-modified', 'keep_fields / dtc_dict / dtc_except_fields modified by the load', case=cs,
                          impl={'now': repr((kwa, kwb)), 'before': repr(snap_kw)})
        if ds_state(dsa, cfg) != st_a or ds_state(dsb, cfg) != st_b:
            ctx.violation(site, 'dataset-or-config-modified', 'stage tables / renaming dictionaries / file lists / Config changed by loading',
                          case=cs, impl={'now': repr(ds_state(dsa, cfg)), 'before': repr(st_a)})
        if _file_hashes(paths) != hashes:
            ctx.violation(site, 'file-modified', 'a data file changed on disk while being loaded', case=cs)
        # results are owned by the caller
        if da1 is not None:
            now = ['Ok', None if da1.exp is None else [tuple(c) for c in canon_table(da1.exp)],
                   None if da1.mc is None else [tuple(c) for c in canon_table(da1.mc)], a1[3]]
            if now != a1:
                ctx.violation(site, 'earlier-result-changed', 'the DatasetData of the first load changed during later loads', case=cs,
                              impl={'then': a1, 'now': now})
            for t in (da1.exp, da1.mc):
                if t is not None:
                    for n1 in t.field_name_list:
                        if t[n1].flags.writeable and len(t[n1]):
                            t[n1][...] = 99
            a4, _ = ds_call(dsa, kwa)
            if a4 != twin_a:
                ctx.violation(site, 'result-aliases-dataset-state', 'writing into returned data changes the next load', case=cs,
                              impl={'after': a4, 'twin': twin_a})
        # mutate-then-observe: the other case's declarations moved onto dataset A
        moved = dict(case, dsf=other['dsf'], exp_ren=other['exp_ren'], mc_ren=other['mc_ren'])
        dsa.datafields = {NAMES[n]: m for n, m in moved['dsf']}
        dsa.exp_field_name_renaming_dict = {NAMES[a]: NAMES[b] for a, b in moved['exp_ren']}
        dsa.mc_field_name_renaming_dict = {NAMES[a]: NAMES[b] for a, b in moved['mc_ren']}
        m1, _ = ds_call(dsa, kwa)
        twin_m = impl_dataset(moved, fmt, mode, True)
        if m1 != twin_m:
            ctx.violation(site, 'stale-after-datafields-or-renaming-change', 'after setting datafields / renaming dictionaries the Dataset '
                          'does not load like a fresh one with that state', case=cs, impl={'got': m1, 'twin': twin_m})
        # same old names renamed to other new names (requested through keep_fields), twice
        part = 'exp' if case['exp'] and case['exp'][0] else ('mc' if case['mc'] and case['mc'][0] else None)
        if part:
            used = {n for f in case['exp'] + case['mc'] if f for n, d in f['sch']} | {n for n, m in moved['cfg'] + moved['dsf']}
            free = [n for n in range(len(NAMES)) if n not in used]
            if len(free) >= 2:
                a_ = case[part][0]['sch'][0][0]
                for tgt in free[:2]:
                    ren = [[a_, tgt]]
                    rcase = dict(moved, exp_ren=ren, mc_ren=ren, keep=[tgt])
                    dsa.exp_field_name_renaming_dict = {NAMES[a_]: NAMES[tgt]}
                    dsa.mc_field_name_renaming_dict = {NAMES[a_]: NAMES[tgt]}
                    r1, _ = ds_call(dsa, ds_kwargs(rcase, mode))
                    twin_r = impl_dataset(rcase, fmt, mode, True)
                    # independent of any twin (module-level state would spoil a twin too):
                    # the renamed field was requested, so it must be there with the file column
                    if r1[0] == 'Ok':
                        tbl = r1[1] if part == 'exp' else r1[2]
                        fl = case[part]
                        if tbl is not None and all(f is not None and a_ in [n for n, d in f['sch']] for f in fl):
                            want = [r[[n for n, d in f['sch']].index(a_)] for f in fl for r in rows_of(f)]
                            got = [v for (n, d, v) in tbl if n == tgt]
                            if got != [want]:
                                ctx.violation(site, 'renamed-requested-field-wrong', 'a field renamed to a requested name is absent or '
                                              'does not hold the file column', case=cs, impl={'got': r1, 'ren': ren, 'want': want[:50]})
                    if r1 != twin_r:
                        ctx.violation(site, 'stale-after-renaming-retarget', 'after renaming the same old name to another new name the Dataset '
                                      'does not load like a fresh one', case=cs, impl={'got': r1, 'twin': twin_r, 'ren': ren})
                moved = dict(moved, exp_ren=[[a_, free[1]]], mc_ren=[[a_, free[1]]])
        # ... and a change of the shared Config's stage table
        if case['cfg']:
            n0, m0 = case['cfg'][0]
            cfg['datafields'][NAMES[n0]] = m0 ^ 4
            moved2 = dict(moved, cfg=[[n0, m0 ^ 4]] + [list(x) for x in case['cfg'][1:]])
            m2, _ = ds_call(dsa, kwa)
            twin_m2 = impl_dataset(moved2, fmt, mode, True)
            if m2 != twin_m2:
                ctx.violation(site, 'stale-after-config-change', 'after changing cfg[datafields] the Dataset does not load like a fresh one',
                              case=cs, impl={'got': m2, 'twin': twin_m2})
    finally:
        cleanup(paths)


def run_history(ctx, cases, rng):
    l1 = [c for c in cases if c['level'] == 1 and not is_big(c)]
    l2 = [c for c in cases if c['level'] == 2 and not is_big(c)]
    n1 = ctx.budget(30, 150)
    n2 = ctx.budget(40, 200)
    for c in l1[:n1]:
        history_l1(ctx, c, rng)
    for i, c in enumerate(l2[:n2]):
        history_l2(ctx, c, l2[(i + 1) % len(l2)], rng)


# ---------------------------------------------------------------- I3Dataset (skyllh/i3/dataset.py)
# Real I3Dataset with a good-run-list against a plain Python oracle: GRL loaded,
# renamed and sorted by start; livetime from the GRL; sin_dec / sin_true_dec
# appended; experimental events kept iff their run is in the GRL and their time
# lies in a run window [start, stop] (both edges inclusive), in file order.
def i3_cases(rng, n_random):
    ev = [(1, 10.0, 0.125), (1, 11.0, -0.25), (2, 20.0, 0.5), (2, 25.0, 1.0), (3, 30.0, 0.0), (9, 12.0, 0.75),
          (1, 19.5, 0.3), (2, 10.0, -1.2), (2, 30.0, 0.9), (1, 12.0, 1.5)]
    grl = [(2, 20.0, 30.0, 9.5, 3), (1, 10.0, 12.0, 1.75, 4)]           # unsorted on purpose; edges hit by events
    cases = []
    for fields in (('run', 'start', 'stop', 'livetime', 'events'), ('run', 'start', 'stop', 'events'),
                   ('run', 'livetime'), ('start', 'stop', 'livetime')):
        for ren in (False, True):
            for lt in (None, 77):
                cases.append({'events': ev, 'grl': grl, 'grl_fields': list(fields), 'grl_ren': ren, 'livetime': lt,
                              'mode': 'memory' if ren else 'time', 'with_mc': lt is None})
    for _ in range(n_random):
        runs = rng.sample(range(1, 8), rng.randint(1, 4))
        g = []
        t = 0.0
        for r_ in runs:
            t += rng.randint(0, 3)
            w = rng.randint(1, 6)
            g.append((r_, t, t + w, w - rng.choice([0, 0.25, 0.5]), rng.randint(0, 9)))
            t += w
        rng.shuffle(g)
        e = [(rng.choice(runs + [8, 9]), rng.choice([x for row in g for x in (row[1], row[2])] + [rng.randint(0, 40) / 2.0]),
              rng.randint(-12, 12) / 8.0) for _ in range(rng.randint(0, 25))]
        cases.append({'events': e, 'grl': g, 'grl_fields': ['run', 'start', 'stop', 'livetime', 'events'],
                      'grl_ren': rng.random() < 0.5, 'livetime': None if rng.random() < 0.7 else 5,
                      'mode': rng.choice(['time', 'memory']), 'with_mc': rng.random() < 0.5})
    return cases


def run_i3(ctx, rng):
    from skyllh.core.config import Config
    from skyllh.i3.dataset import I3Dataset
    for c in i3_cases(rng, ctx.budget(10, 80)):
        ctx.case({'i3': c})
        ctx.count('i3:cases')
        ev, grl = c['events'], c['grl']
        cs = {'level': 3, 'i3': c}
        d = tmpdir()
        _counter[0] += 1
        pe, pg, pm = (os.path.join(d, f'i3{k}{_counter[0]}.npy') for k in 'egm')
        exp = np.zeros(len(ev), dtype=[('run', np.int64), ('time', np.float64), ('dec', np.float64), ('extra', np.float64)])
        for j, (r_, t, dec) in enumerate(ev):
            exp[j] = (r_, t, dec, j)
        np.save(pe, exp)
        gname = {f: ('grl_' + f if c['grl_ren'] else f) for f in c['grl_fields']}
        col = {'run': 0, 'start': 1, 'stop': 2, 'livetime': 3, 'events': 4}
        garr = np.zeros(len(grl), dtype=[(gname[f], np.int64 if f in ('run', 'events') else np.float64) for f in c['grl_fields']])
        for j, row in enumerate(grl):
            garr[j] = tuple(row[col[f]] for f in c['grl_fields'])
        np.save(pg, garr)
        mc = np.zeros(3, dtype=[('dec', np.float64), ('true_dec', np.float64), ('time', np.float64), ('run', np.int64)])
        mc['dec'] = [0.25, -0.5, 1.0]
        mc['true_dec'] = [0.125, -0.75, 0.5]
        np.save(pm, mc)
        try:
            cfg = Config()
            cfg['repository']['download_from_origin'] = False
            cfg['datafields'].clear()
            cfg['datafields'].update({'run': 4, 'time': 4, 'dec': 4, 'sin_dec': 4, 'sin_true_dec': 8, 'true_dec': 8})
            ds = I3Dataset(cfg=cfg, name='i3verif', exp_pathfilenames=[pe], mc_pathfilenames=[pm] if c['with_mc'] else None,
                           grl_pathfilenames=[pg], livetime=c['livetime'], default_sub_path_fmt='', version=1, base_path=d)
            if c['grl_ren']:
                ds.grl_field_name_renaming_dict = {v: k for k, v in gname.items()}
            try:
                with warnings.catch_warnings():
                    warnings.simplefilter('ignore')
                    data = ds.load_and_prepare_data(efficiency_mode=c['mode'])
                got = ['Ok', {n: data.exp[n].tolist() for n in data.exp.field_name_list},
                       None if data.mc is None else {n: data.mc[n].tolist() for n in data.mc.field_name_list},
                       float(data.livetime), {n: data.grl[n].tolist() for n in data.grl.field_name_list}]
            except Exception as ex:
                got = ['Err', exc_kind(ex)]
            # ---- oracle
            gf = c['grl_fields']
            if 'start' not in gf:
                want_err = 'KeyError'         # load_grl sorts by `start`
            else:
                want_err = None
            if want_err:
                if got != ['Err', want_err]:
                    ctx.violation('I3Dataset.load_and_prepare_data', 'grl-without-start-not-reported', 'GRL without a start field',
                                  case=cs, impl=got)
                continue
            gs = sorted(grl, key=lambda r: r[1])
            keep = []
            for (r_, t, dec) in ev:
                ok = True
                if 'run' in gf:
                    ok = ok and r_ in {g[0] for g in grl}
                if 'start' in gf and 'stop' in gf:
                    ok = ok and any(g[1] <= t <= g[2] for g in grl)
                if ok:
                    keep.append((r_, t, dec))
            if c['livetime'] is not None:
                lt = float(c['livetime'])
            elif 'livetime' in gf:
                lt = float(sum(g[3] for g in grl))
            else:
                lt = float(sum(g[2] - g[1] for g in grl))
            bad = None
            if got[0] != 'Ok':
                bad = 'raises-' + got[1]
            else:
                e = got[1]
                if sorted(e) != ['dec', 'run', 'sin_dec', 'time']:
                    bad = 'wrong-exp-fields'
                elif (e['run'] != [k[0] for k in keep] or e['time'] != [k[1] for k in keep] or e['dec'] != [k[2] for k in keep]):
                    bad = 'wrong-events-kept'
                elif not np.allclose(e['sin_dec'], np.sin([k[2] for k in keep]), rtol=1e-12, atol=1e-15):
                    bad = 'wrong-sin_dec'
                elif abs(got[3] - lt) > 1e-9:
                    bad = 'wrong-livetime'
                elif sorted(got[4]) != sorted(gf) or any(got[4][f] != [g[col[f]] for g in gs] for f in gf):
                    bad = 'grl-not-renamed-or-sorted'
                elif c['with_mc'] and (got[2] is None or sorted(got[2]) != ['dec', 'run', 'sin_dec', 'sin_true_dec', 'time', 'true_dec']
                                       or not np.allclose(got[2]['sin_true_dec'], np.sin(mc['true_dec']), rtol=1e-12)
                                       or not np.allclose(got[2]['sin_dec'], np.sin(mc['dec']), rtol=1e-12)
                                       or got[2]['true_dec'] != mc['true_dec'].tolist()):
                    bad = 'wrong-mc-data'
            if bad:
                ctx.violation('I3Dataset.load_and_prepare_data', bad,
                              'I3Dataset result differs from: GRL renamed + sorted by start, livetime from the GRL, sin_dec appended, '
                              'events kept iff run in GRL and start <= time <= stop, in file order', case=cs, impl=got,
                              model={'kept': keep, 'livetime': lt},
                              predicate='every (GRL-selected) row once in file order, required fields present')
        finally:
            cleanup([pe, pg, pm])


# ---------------------------------------------------------------- generators
BIG_VALUES = [2 ** 24 + 1, -(2 ** 24 + 3), 2 ** 30 + 1, 123456789, 2 ** 25 + 2 ** 1 + 1, -(2 ** 29 + 7)]


def gen_rows(rng, k, n, big=False):
    """small integers; with `big` also integers that float32 cannot represent (a float32 detour in
    one loader or mode changes them)"""
    def cell():
        r = rng.random()
        if big and r < 0.35:
            return rng.choice(BIG_VALUES)
        return rng.randint(-1000, 1000) if r < 0.9 else rng.choice([0, 2 ** 20, -2 ** 20, 2 ** 23])
    return [[cell() for _ in range(k)] for _ in range(n)]


def normalise_spec(fs):
    """what is on disk: cells of a float32 column are float32 values"""
    if fs is None or 'rows' not in fs:
        return fs
    for j, (n, d) in enumerate(fs['sch']):
        if d == 2:
            for r in fs['rows']:
                r[j] = int(np.float32(r[j]))
    return fs


def gen_file(rng, sch, n, synth=False, big=False):
    if synth or n > 80:
        # non-zero slopes: every row distinct, so that an unwritten (np.empty) cell cannot hold the right value by reuse
        return {'sch': sch, 'coef': [[rng.randint(-500, 500), rng.choice([-3, -2, -1, 1, 2, 3])] for _ in sch], 'n': n}
    return normalise_spec({'sch': sch, 'rows': gen_rows(rng, len(sch), n, big)})


def gen_schema(rng, all_f64=False, pool=None, kmin=1):
    pool = pool or list(range(len(NAMES)))
    k = rng.randint(kmin, min(5, len(pool)))
    names = rng.sample(pool, k)
    return [[n, 3 if all_f64 else rng.randint(0, 3)] for n in names]


def gen_conv(rng):
    r = rng.random()
    if r < 0.3:
        return []
    if r < 0.6:
        return [[3, 2]]
    ks = rng.sample(range(4), rng.randint(1, 3))
    return [[k, rng.randint(0, 3)] for k in ks]


def gen_files(rng, ctx, sch, nfiles, sizes, allow_bad=True, big=False):
    files = []
    for i in range(nfiles):
        n = sizes[i] if i < len(sizes) else rng.choice([0, 1, 2, 3, 7, 20])
        s = [list(x) for x in sch]
        if i > 0 and allow_bad:
            r = rng.random()
            if r < 0.12:
                rng.shuffle(s)
                ctx.count('file:permuted-columns')
            elif r < 0.2:
                extra = [n_ for n_ in range(len(NAMES)) if n_ not in [x[0] for x in s]]
                s.append([rng.choice(extra), rng.randint(0, 3)])
                ctx.count('file:extra-field')
            elif r < 0.27 and len(s) > 1:
                s.pop(rng.randrange(len(s)))
                ctx.count('file:lacks-field')
            elif r < 0.35:
                j = rng.randrange(len(s))
                s[j][1] = rng.randint(0, 3)
                ctx.count('file:other-dtype')
        files.append(gen_file(rng, s, n, big=big))
    if allow_bad and rng.random() < 0.08:
        files[rng.randrange(len(files))] = None
        ctx.count('file:missing')
    return files


SIZES_SMALL = [0, 1, 2, 3, 5, 8, 17, 40, 60]
SIZES_BIG = [4095, 4096, 4097, 5000, 8193]


def gen_l1(rng, ctx, big=None, wide=False, many=False):
    f64 = rng.random() < 0.35
    conv = gen_conv(rng)
    bigvals = all(b != 2 for a, b in conv) and rng.random() < 0.6
    if bigvals:
        ctx.count('cells:not-float32-representable')
    sch = gen_schema(rng, all_f64=f64)
    if big is not None:
        sch = sch[:2]              # the list model of the row loop is quadratic in the rows
    if wide:                       # more than 5 fields
        extra = [n for n in range(len(NAMES)) if n not in [x[0] for x in sch]]
        sch += [[n, 3 if f64 else rng.randint(0, 3)] for n in rng.sample(extra, rng.randint(6, 8) - len(sch))]
        ctx.count('fields:>5')
    nfiles = rng.choice([5, 6]) if many else rng.choice([1, 1, 2, 2, 3, 4])
    if big is not None:
        sizes = [big] + [rng.choice([0, 1, 5]) for _ in range(nfiles - 1)]
        if rng.random() < 0.5:
            sizes.reverse()
    else:
        sizes = [rng.choice(SIZES_SMALL) for _ in range(nfiles)]
    files = gen_files(rng, ctx, sch, nfiles, sizes, allow_bad=(big is None), big=bigvals)
    fn = [n for n, d in sch]
    r = rng.random()
    if r < 0.25:
        keep = None
        ctx.count('keep:None')
    elif r < 0.3:
        keep = []
        ctx.count('keep:empty')
    elif r < 0.4:
        keep = rng.sample([n for n in range(len(NAMES)) if n not in fn], 2)
        ctx.count('keep:disjoint')
    else:
        keep = rng.sample(fn, rng.randint(1, len(fn)))
        if rng.random() < 0.4:
            keep += rng.sample([n for n in range(len(NAMES)) if n not in fn], 1)
        rng.shuffle(keep)
        ctx.count('keep:subset')
    exc = rng.sample(fn, rng.randint(0, min(2, len(fn)))) if rng.random() < 0.5 else []
    ctx.count(f'files:{nfiles}')
    ctx.count('rows:' + ('big' if big else 'small'))
    return {'level': 1, 'files': files, 'keep': keep, 'conv': conv, 'exc': exc, 'badmode': rng.random() < 0.2}


def gen_ren(rng, ctx, fnames, required, tag):
    others = [n for n in range(len(NAMES)) if n not in fnames]
    r = rng.random()
    if r < 0.3 or not fnames:
        ctx.count(f'ren:{tag}:none')
        return []
    if r < 0.55 and others:
        k = rng.randint(1, min(2, len(fnames), len(others)))
        ctx.count(f'ren:{tag}:simple')
        return [list(p) for p in zip(rng.sample(fnames, k), rng.sample(others, k))]
    if r < 0.75:
        tgt = [n for n in required if n not in fnames] or others or fnames
        ctx.count(f'ren:{tag}:onto-required')
        return [[rng.choice(fnames), rng.choice(tgt)]]
    if r < 0.82 and len(fnames) >= 2:
        a, b = rng.sample(fnames, 2)
        ctx.count(f'ren:{tag}:collision')
        return [[a, b]]
    if r < 0.89 and len(fnames) >= 2:
        a, b = rng.sample(fnames, 2)
        ctx.count(f'ren:{tag}:swap')
        return [[a, b], [b, a]]
    if r < 0.95 and others:
        a = rng.choice(fnames)
        b, c = (rng.sample(others, 2) if len(others) >= 2 else (others[0], a))
        ctx.count(f'ren:{tag}:chain')
        return [[a, b], [b, c]]
    ctx.count(f'ren:{tag}:foreign')
    return [[rng.choice(others or fnames), rng.choice(fnames)]]


def gen_l2(rng, ctx, big=None):
    f64 = rng.random() < 0.4
    pool = list(range(len(NAMES)))
    esch = gen_schema(rng, all_f64=f64, kmin=2)
    en = [n for n, d in esch]
    # mc schema: the exp fields plus some mc-only ones
    msch = [list(x) for x in esch] + [[n, 3 if f64 else rng.randint(0, 3)]
                                      for n in rng.sample([p for p in pool if p not in en], rng.randint(0, 2))]
    mn = [n for n, d in msch]
    has_exp = rng.random() < 0.9
    has_mc = rng.random() < 0.6 or not has_exp
    ne = rng.choice([1, 1, 2, 3, 4])
    nm = rng.choice([1, 1, 2])
    sizes = [big] if big else []
    conv = gen_conv(rng)
    bigvals = all(b != 2 for a, b in conv) and rng.random() < 0.5
    if bigvals:
        ctx.count('cells:not-float32-representable')
    exp = gen_files(rng, ctx, esch, ne, sizes + [rng.choice(SIZES_SMALL) for _ in range(ne)], big=bigvals) if has_exp else []
    mc = gen_files(rng, ctx, msch, nm, [rng.choice(SIZES_SMALL) for _ in range(nm)], big=bigvals) if has_mc else []
    # stage tables: mostly satisfiable (required fields exist in the files), sometimes not
    cfg, dsf = [], []
    for n in rng.sample(en, rng.randint(0, len(en))):
        cfg.append([n, rng.choice([1, 4, 4, 5, 4, 0])])
    for n in rng.sample([m for m in mn if m not in en], rng.randint(0, len(mn) - len(en))):
        cfg.append([n, rng.choice([2, 8, 8, 10])])
    r = rng.random()
    if r < 0.45:
        cand = [n for n in mn if n not in [c[0] for c in cfg]]
        for n in rng.sample(cand, rng.randint(0, min(2, len(cand)))):
            dsf.append([n, (rng.choice([4, 4, 1, 5]) if n in en else rng.choice([8, 2]))])
        ctx.count('stage:dataset-level' if dsf else 'stage:cfg-only')
    elif r < 0.7 and cfg:
        c = rng.choice(cfg)
        # same name at both levels, the dataset wins; the analysis bits differ in one or the other direction
        if c[1] & 12:
            c2 = rng.choice([0, 1, 2, 3])
            ctx.count('stage:both-levels:cfg-analysis-ds-not')
        else:
            c2 = rng.choice([4, 8, 12, 5])
            ctx.count('stage:both-levels:ds-analysis-cfg-not')
        dsf.append([c[0], c2])
        ctx.count('stage:both-levels-same-name')
    else:
        ctx.count('stage:cfg-only')
    if rng.random() < 0.12:
        miss = rng.choice([p for p in pool if p not in mn] or pool)
        (cfg if rng.random() < 0.5 else dsf).append([miss, rng.choice([4, 8, 1])])
        ctx.count('stage:required-field-not-in-files')
    rng.shuffle(cfg)
    required = [n for n, m in cfg + dsf if m & 12]
    exp_ren = gen_ren(rng, ctx, en if has_exp else [], required, 'exp')
    mc_ren = gen_ren(rng, ctx, mn if has_mc else [], required, 'mc')
    keep = rng.sample(pool, rng.randint(0, 3)) if rng.random() < 0.6 else []
    prep = []
    r = rng.random()
    if r < 0.15 and has_exp:
        prep.append(['addexp', rng.choice(pool), rng.choice(en)])
    elif r < 0.22 and has_mc:
        prep.append(['addmc', rng.choice(pool), rng.choice(mn)])
    elif r < 0.3 and has_exp:
        prep.append(['dropexp', rng.choice(en)])
    elif r < 0.33:
        prep.append(['raise'])
    for op in prep:
        ctx.count('prep:' + op[0])
    exc = None if rng.random() < 0.5 else rng.sample(pool, rng.randint(0, 2))
    lt = None if rng.random() < 0.06 else rng.randint(1, 400)
    return {'level': 2, 'cfg': cfg, 'dsf': dsf, 'exp': exp, 'mc': mc, 'exp_ren': exp_ren, 'mc_ren': mc_ren,
            'livetime': lt, 'keep': keep, 'conv': conv, 'exc': exc, 'exc_str': rng.random() < 0.5, 'prep': prep,
            'try_pkl': rng.random() < 0.1}


def corpus_cases():
    """regression corpus: inputs of the defects fixed in /repo (known_findings.d/C17.json, status fixed)"""
    f = {'sch': [[0, 3], [8, 3]], 'rows': [[1, 7], [2, 7], [3, 7]]}
    one = {'sch': [[0, 3], [1, 3]], 'rows': [[5, 6]]}
    base = {'level': 2, 'mc': [], 'exp_ren': [], 'mc_ren': [], 'livetime': 1, 'keep': [], 'conv': [], 'exc': None,
            'prep': [], 'try_pkl': True}
    both = []
    fe = {'sch': [[0, 3], [2, 1]], 'rows': [[1, 10], [2, 20], [3, 30]]}
    fm = {'sch': [[0, 3], [2, 1], [6, 3]], 'rows': [[4, 40, 7], [5, 50, 8]]}
    # (configuration bits, dataset bits) of ONE name listed at both levels: analysis vs preparation-only / none,
    # in each direction; name 2 = present in the files, name 9 = missing; exp bits and mc bits
    for (cb, db) in ((4, 1), (1, 4), (4, 0), (0, 4), (5, 1), (1, 5)):
        for nm in (2, 9):
            for keep in ([], [nm]):
                both.append(dict(base, cfg=[[0, 4], [nm, cb]], dsf=[[nm, db]], exp=[fe], mc=[], keep=keep, try_pkl=False))
    for (cb, db) in ((8, 2), (2, 8), (8, 0), (0, 8)):
        for nm in (6, 9):
            both.append(dict(base, cfg=[[0, 4], [nm, cb]], dsf=[[nm, db]], exp=[fe], mc=[fm], try_pkl=False))
    # dtc_except_fields names the NEW name of a renamed field (must be translated back), as list and as str,
    # exp and mc (fix f87be46: a str was translated character by character)
    fr = {'sch': [[2, 3], [1, 3]], 'rows': [[2 ** 24 + 1, 5], [7, 6]]}
    for exc_str in (False, True):
        both.append(dict(base, cfg=[[4, 4], [1, 4]], dsf=[], exp=[fr], mc=[], exp_ren=[[2, 4]], conv=[[3, 1]], exc=[4],
                         exc_str=exc_str, try_pkl=False))
        both.append(dict(base, cfg=[[4, 4], [1, 4]], dsf=[], exp=[fr], mc=[fr], exp_ren=[[2, 4]], mc_ren=[[2, 4]], conv=[[3, 1]],
                         exc=[4], exc_str=exc_str, try_pkl=False))
        both.append(dict(base, cfg=[[2, 4], [1, 4]], dsf=[], exp=[fr], mc=[], conv=[[3, 0]], exc=[2], exc_str=exc_str, try_pkl=False))
    sub1 = {'sch': [[14, 3], [13, 3], [12, 1], [0, 3], [6, 3]], 'rows': [[1, 2, 3, 4, 5], [6, 7, 8, 9, 10], [11, 12, 13, 14, 15]]}
    sub2 = {'sch': [[13, 3], [14, 3], [6, 3], [12, 1], [0, 3]], 'rows': [[21, 22, 23, 24, 25]]}
    subs = []
    for files in ([sub1], [sub1, sub2]):
        for keep, exc in (([14], []), ([6], []), ([13], [14]), (None, [14]), (None, [6]), ([14, 13, 12, 0, 6], [13])):
            subs.append({'level': 1, 'files': files, 'keep': keep, 'conv': [[3, 2], [1, 0]], 'exc': exc, 'badmode': False})
    # the MC exception list is translated with the MC renaming dictionary (exp dictionary empty / different)
    fmc = {'sch': [[2, 3], [1, 3], [7, 3]], 'rows': [[2 ** 24 + 1, 5, 1], [7, 6, 2]]}
    for exp_ren in ([], [[2, 9]], [[1, 4]]):
        for exc_str in (False, True):
            both.append(dict(base, cfg=[[1, 4], [4, 8], [7, 8]], dsf=[], exp=[fr], mc=[fmc], exp_ren=exp_ren, mc_ren=[[2, 4]],
                             conv=[[3, 1]], exc=[4], exc_str=exc_str, try_pkl=False))
    # deterministic block-crossing tables (every field kept / a subset with a conversion), both modes
    subs.append({'level': 1, 'files': [{'sch': [[0, 3], [3, 1]], 'coef': [[7, 1], [-5, 2]], 'n': 4097}], 'keep': None,
                 'conv': [], 'exc': [], 'badmode': False})
    subs.append({'level': 1, 'files': [{'sch': [[2, 3], [1, 0]], 'coef': [[100, 3], [1, -1]], 'n': 4100},
                                       {'sch': [[1, 0], [2, 3]], 'rows': [[5, 6]]}], 'keep': [2, 9],
                 'conv': [[3, 1]], 'exc': [], 'badmode': False})
    return subs + both + [
        # dataset-level analysis field must survive tidy_up (fix 5fbad79)
        dict(base, cfg=[[0, 4]], dsf=[[8, 4]], exp=[f]),
        # dataset-level required field missing from the file must be reported (fix 5fbad79)
        dict(base, cfg=[[0, 4]], dsf=[[9, 4]], exp=[f]),
        # csv file with exactly one data row (fix fc2e790); parquet with dtype conversion and a foreign keep name (4e8492b, 5bbf0ee)
        {'level': 1, 'files': [one], 'keep': None, 'conv': [], 'exc': [], 'badmode': False},
        {'level': 1, 'files': [one, f if False else {'sch': [[0, 3], [1, 3]], 'rows': [[1, 2], [3, 4]]}], 'keep': [1, 0, 5],
         'conv': [[3, 2]], 'exc': [1], 'badmode': True},
    ]


def is_trivial(case):
    fs = case['files'] if case['level'] == 1 else case['exp'] + case['mc']
    return not any(f is not None for f in fs)


def is_big(case):
    fs = case['files'] if case['level'] == 1 else case['exp'] + case['mc']
    return any(f is not None and nrows(f) > 500 for f in fs)


def run_cases(ctx, cases, tag):
    import concurrent.futures
    small_e, small_c, big = [], [], []
    for c in cases:
        ctx.case(c, nontrivial=not is_trivial(c))
        exprs, checks = [], []
        if c['level'] == 1:
            run_l1(ctx, c, exprs, checks)
        else:
            run_l2(ctx, c, exprs, checks)
        if is_big(c):
            # the list-based model of the row loop is quadratic: one Coq process per expression
            big += [([e], [k]) for e, k in zip(exprs, checks)]
        else:
            small_e += exprs
            small_c += checks
    if not ctx.model_ok:
        ctx.notes.append('model did not build: implementation-only predicates were evaluated')
        return
    try:
        with concurrent.futures.ThreadPoolExecutor(max_workers=6) as ex:
            futs = [ex.submit(common.coq_eval, f'{tag}b{i}', IMPORTS, e, 1500) for i, (e, k) in enumerate(big)]
            vals = common.coq_eval(tag, IMPORTS, small_e, timeout=1500) if small_e else []
            compare(ctx, small_c, vals)
            for (e, k), f in zip(big, futs):
                compare(ctx, k, f.result())
    except RuntimeError as ex:
        ctx.broken.append({'kind': 'model-eval', 'error': str(ex)[:1500]})


def run(ctx):
    rng = ctx.rng
    if not HAVE_PQ:
        ctx.notes.append('pyarrow is not importable: parquet format skipped')
    cases = corpus_cases()
    bigs = SIZES_BIG if ctx.thorough() else [4095, 4096, 4097, 5000]
    for b in bigs:
        cases.append(gen_l1(rng, ctx, big=b))
    for _ in range(ctx.budget(3, 12)):
        cases.append(gen_l1(rng, ctx, wide=True))
        cases.append(gen_l1(rng, ctx, many=True))
    for b in (bigs if ctx.thorough() else [4097]):
        cases.append(gen_l2(rng, ctx, big=b))
    n1 = ctx.budget(90, 500)
    n2 = ctx.budget(110, 700)
    for _ in range(n1):
        cases.append(gen_l1(rng, ctx))
    for _ in range(n2):
        cases.append(gen_l2(rng, ctx))
    ctx.sample({'level-1 example': [c for c in cases if c['level'] == 1 and not is_big(c)][2]})
    ctx.sample({'level-2 example': cases[-1]})
    run_cases(ctx, cases, 'c17')
    run_history(ctx, cases, random_for_history(ctx))
    run_i3(ctx, random_for_history(ctx))


def random_for_history(ctx):
    import random
    return random.Random(ctx.seed * 7919 + 17)


def replay(ctx, rp):
    c = rp.get('case') or {}
    if c.get('level') == 3:
        return run_i3(ctx, random_for_history(ctx))
    if c.get('history'):
        rng = random_for_history(ctx)
        if c['level'] == 1:
            c.setdefault('badmode', False)
            return history_l1(ctx, c, rng)
        return history_l2(ctx, c['case'], c['other'], rng)
    if 'level' not in c:
        ctx.notes.append('replay file has no concrete input (broken obligation): re-running the full check')
        return run(ctx)
    if c['level'] == 1:
        c.setdefault('badmode', False)
    run_cases(ctx, [c], 'c17r')
