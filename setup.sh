#!/bin/bash
# Build the whole framework from files on disk (offline).
set -u
cd "$(dirname "$0")"
mkdir -p build evidence coq/gen
export PYTHONPATH=/repo PYTHONHASHSEED=0
/venv/bin/python translator/py2coq.py > build/translator.json
trc=$?
if [ $trc -ne 0 ]; then echo "setup: translator reported errors (see build/translator.json)"; fi
./tools/mkcoqproject.sh || exit 2
cd coq
timeout 3400 make -j16 -k 2>&1 | tail -40
rc=${PIPESTATUS[0]}
cd ..
for d in ocaml/*/; do
  [ -f "$d/build.sh" ] && (cd "$d" && timeout 600 ./build.sh) || true
done
exit $rc
