From Coq Require Import ZArith List Extraction ExtrOcamlBasic.
From Sky Require Import Result Num M_Flux.
Extraction "model.ml" e_call e_int t_call t_int t_total rv_pdf_of t_cdf ffm_to_internal box_cdf s_call box_new box_from gauss_new
  ffm_new ffm_call ffm_call2 obj_get_param step run view_of Z.of_nat Z.to_nat.
