(* C13 driver: one case per line
     <nobj> obj.. <nops> op.. <nobs> obs..
   prints one line of result tokens.  Floats as C99 hex. *)
let toks = ref [||]
let pos = ref 0
let next () = let t = !toks.(!pos) in incr pos; t
let nint () = int_of_string (next ())
let nfl () = fl (next ())
let nz () = z_of_int (nint ())
let nnat () = nat_of_int (nint ())
let pname_of = function
  | "E0" -> NE0 | "gamma" -> NGamma | "Ecut" -> NEcut | "alpha" -> NAlpha | "beta" -> NBeta
  | "t_start" -> NTstart | "t_stop" -> NTstop | "t0" -> NT0 | "tw" -> NTw | "sigma_t" -> NSigma
  | "ra" -> NRa | "dec" -> NDec | "Phi0" -> NPhi0 | _ -> NOther
let unit_of i = if i < 0 then None else Some (z_of_int i)
let errname = function
  | IndexError -> "IndexError" | KeyError -> "KeyError" | TypeError -> "TypeError"
  | ValueError -> "ValueError" | NameError -> "NameError" | ZeroDivision -> "ZeroDivision"
  | RuntimeError -> "RuntimeError" | AssertionError -> "AssertionError"
  | AttributeError -> "AttributeError" | OutOfFuel -> "OutOfFuel"
(* the function family of the function-based energy profile (same in harness/c13.py) *)
let fam k a b : float -> float = match k with
  | 0 -> (fun e -> a *. Float.pow e (-. b))
  | 1 -> (fun e -> a *. Float.exp (-. e /. b))
  | _ -> (fun e -> a +. b *. e)
let npd () =
  let n = nint () in
  List.init n (fun _ -> let k = pname_of (next ()) in let v = nfl () in (k, v))
exception Fail of string
let zi z = string_of_int (int_of_z z)
let show_view v = match v with
  | VE (UnityE eu) -> ["UE"; zi eu]
  | VE (PowerLaw (eu, e0, g)) -> ["PL"; zi eu; hx e0; hx g]
  | VE (Cutoff (eu, e0, g, ec)) -> ["CO"; zi eu; hx e0; hx g; hx ec]
  | VE (LogPar (eu, e0, a, b)) -> ["LP"; zi eu; hx e0; hx a; hx b]
  | VE (FuncE (eu, _)) -> ["FN"; zi eu]
  | VT (UnityT (tu, ts, te)) -> ["UT"; zi tu; hx ts; hx te]
  | VT (Box (tu, ts, te)) -> ["BX"; zi tu; hx ts; hx te]
  | VT (Gauss (tu, ts, te, sg, tol)) -> ["GA"; zi tu; hx ts; hx te; hx sg; hx tol]
  | VS UnityS -> ["US"]
  | VS (Point (r, d)) -> ["PT"; hx r; hx d]
  | VM (p, _, _, _) -> ["FM"; hx p]
let getobj s l = List.nth_opt s l
let one_case () =
  let nobj = nint () in
  let s = ref [] in
  for _ = 1 to nobj do
    match next () with
    | "UE" -> let eu = nz () in s := !s @ [OE (UnityE eu)]
    | "PL" -> let eu = nz () in let a = nfl () in let b = nfl () in s := !s @ [OE (PowerLaw (eu, a, b))]
    | "CO" -> let eu = nz () in let a = nfl () in let b = nfl () in let c = nfl () in s := !s @ [OE (Cutoff (eu, a, b, c))]
    | "LP" -> let eu = nz () in let a = nfl () in let b = nfl () in let c = nfl () in s := !s @ [OE (LogPar (eu, a, b, c))]
    | "FN" -> let eu = nz () in let k = nint () in let a = nfl () in let b = nfl () in s := !s @ [OE (FuncE (eu, fam k a b))]
    | "UT" -> let tu = nz () in let a = nfl () in let b = nfl () in s := !s @ [OT (UnityT (tu, a, b))]
    | "BX" -> let tu = nz () in let a = nfl () in let b = nfl () in s := !s @ [OT (box_new numf tu a b)]
    | "BF" -> let tu = nz () in let a = nfl () in let b = nfl () in s := !s @ [OT (box_from numf tu a b)]
    | "GA" -> let tu = nz () in let a = nfl () in let b = nfl () in let c = nfl () in s := !s @ [OT (gauss_new numf tu a b c)]
    | "US" -> s := !s @ [OS UnityS]
    | "PT" -> let a = nfl () in let b = nfl () in s := !s @ [OS (Point (a, b))]
    | "FM" -> let p = nfl () in let a = nnat () in let b = nnat () in let c = nnat () in
        (match ffm_new !s p a b c with
         | Ok (s', _) -> s := s'
         | Err e -> raise (Fail (errname e)))
    | t -> failwith ("bad object token " ^ t)
  done;
  let nops = nint () in
  let ops = List.init nops (fun _ ->
    match next () with
    | "SP" -> let l = nnat () in let pd = npd () in OpSetParams (l, pd)
    | "SA" -> let l = nnat () in let n = pname_of (next ()) in let v = nfl () in OpSetAttr (l, n, v)
    | "MV" -> let l = nnat () in let d = nfl () in let u = unit_of (nint ()) in OpMove (l, d, u)
    | "CP" -> let l = nnat () in OpCopy l
    | "CW" -> let l = nnat () in let pd = npd () in OpCopyWith (l, pd)
    | t -> failwith ("bad op token " ^ t)) in
  let st = match run numf !s ops with Ok x -> x | Err e -> raise (Fail (errname e)) in
  let nobs = nint () in
  let out = ref [] in
  let emit l = out := !out @ l in
  for _ = 1 to nobs do
    match next () with
    | "EC" -> let l = nint () in let u = unit_of (nint ()) in let e = nfl () in
        (match getobj st l with Some (OE p) -> emit [hx (e_call numf p u e)] | _ -> emit ["E:TypeError"])
    | "EI" -> let l = nint () in let u = unit_of (nint ()) in let a = nfl () in let b = nfl () in
        (match getobj st l with
         | Some (OE p) -> (match e_int numf p u a b with Some v -> emit [hx v] | None -> emit ["quad"])
         | _ -> emit ["E:TypeError"])
    | "TC" -> let l = nint () in let u = unit_of (nint ()) in let t = nfl () in
        (match getobj st l with Some (OT p) -> emit [hx (t_call numf p u t)] | _ -> emit ["E:TypeError"])
    | "TI" -> let l = nint () in let u = unit_of (nint ()) in let a = nfl () in let b = nfl () in
        (match getobj st l with Some (OT p) -> emit [hx (t_int numf p u a b)] | _ -> emit ["E:TypeError"])
    | "RP" -> let l = nint () in let t = nfl () in
        (match getobj st l with Some (OT p) -> emit [hx (rv_pdf_of numf p t)] | _ -> emit ["E:TypeError"])
    | "TT" -> let l = nint () in
        (match getobj st l with Some (OT p) -> emit [hx (t_total numf p)] | _ -> emit ["E:TypeError"])
    | "CD" -> let l = nint () in let u = unit_of (nint ()) in let t = nfl () in
        (match getobj st l with
         | Some (OT p) -> (match t_cdf numf p u t with Some v -> emit [hx v] | None -> emit ["E:TypeError"])
         | _ -> emit ["E:TypeError"])
    | "TU" -> let l = nnat () in
        (match ffm_to_internal numf st l with Ok v -> emit [hx v] | Err e -> emit ["E:" ^ errname e])
    | "SC" -> let l = nint () in let a = nfl () in let b = nfl () in
        (match getobj st l with Some (OS p) -> emit [hx (s_call numf p a b)] | _ -> emit ["E:TypeError"])
    | "FC" -> let l = nnat () in
        let hr = nint () in let ra = nfl () in let dec = nfl () in
        let he = nint () in let e = nfl () in
        let ht = nint () in let t = nfl () in
        let eu = unit_of (nint ()) in let tu = unit_of (nint ()) in
        (match ffm_call2 numf st l (if hr = 1 || hr = 2 then Some ra else None)
                 (if hr = 1 || hr = 3 then Some dec else None)
                 (if he = 1 then Some e else None) (if ht = 1 then Some t else None) eu tu with
         | Ok v -> emit [hx v] | Err e -> emit ["E:" ^ errname e])
    | "GP" -> let l = nnat () in let n = pname_of (next ()) in
        (match obj_get_param numf st l n with
         | Ok (Some v) -> emit [hx v] | Ok None -> emit ["nan"] | Err e -> emit ["E:" ^ errname e])
    | "ST" -> let l = nnat () in
        (match view_of st l with Ok v -> emit (show_view v) | Err e -> emit ["E:" ^ errname e])
    | t -> failwith ("bad obs token " ^ t)
  done;
  String.concat " " !out

let () = iter_lines (fun l ->
  toks := Array.of_list (words l); pos := 0;
  match one_case () with
  | r -> print_endline r
  | exception (Fail k) -> print_endline ("ERR " ^ k))
