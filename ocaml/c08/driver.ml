(* C08 driver: one RandomChoice case per line
     rc <eps64> <epsp> <junk> | items... | p... | u... | perm...
   prints  OK i1 i2 ...   or   ERR <kind>
     cdf | p...            prints the normalised cdf as hex floats *)
let err_name (e : err) : string =
  match e with
  | IndexError -> "IndexError" | KeyError -> "KeyError" | TypeError -> "TypeError"
  | ValueError -> "ValueError" | NameError -> "NameError" | ZeroDivision -> "ZeroDivision"
  | RuntimeError -> "RuntimeError" | AssertionError -> "AssertionError"
  | AttributeError -> "AttributeError" | OutOfFuel -> "OutOfFuel"

let rec to_coq_list (l : 'a list) : 'a list = l

let split_bar (ws : string list) : string list list =
  let rec go acc cur = function
    | [] -> List.rev (List.rev cur :: acc)
    | "|" :: r -> go (List.rev cur :: acc) [] r
    | w :: r -> go acc (w :: cur) r in
  go [] [] ws

let zl (ws : string list) = List.map (fun w -> z_of_int (int_of_string w)) ws
let fll (ws : string list) = List.map fl ws

let () = iter_lines (fun l ->
  match split_bar (words l) with
  | [["rc"; e64; ep; junk]; items; p; u; perm] ->
      (match rc_run numf (fl e64) (fl ep) (zl items) (fll p) (fll u) (zl perm)
               (z_of_int (int_of_string junk)) with
       | Ok out -> print_endline (String.concat " " ("OK" :: List.map (fun z -> string_of_int (int_of_z z)) out))
       | Err e -> print_endline ("ERR " ^ err_name e))
  | [["cdf"]; p] ->
      (match cdf_of numf (fll p) with
       | Ok c -> print_endline (String.concat " " ("OK" :: List.map hx c))
       | Err e -> print_endline ("ERR " ^ err_name e))
  | _ -> print_endline "ERR parse")
