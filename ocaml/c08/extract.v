From Coq Require Import ZArith List Extraction ExtrOcamlBasic.
From Sky Require Import Result Num M_Random.
Extraction "model.ml" rc_run cdf_of Z.of_nat Z.to_nat.
