(* Extraction of the Num-polymorphic minimiser model to OCaml (ExtrOcamlBasic
   only; the float record is supplied by the hand-written driver). *)
From Coq Require Import ZArith List Extraction ExtrOcamlBasic.
From Sky Require Import Result Num M_Minimize.
Extraction "model.ml" maximize_nr maximize_scan closure_nr minimize_nr minimize_scan minimize maximize_gen
  nr1d nr1d_vec scan2d Z.of_nat Z.to_nat.
