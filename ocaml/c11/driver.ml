(* C11 driver: one case per line on stdin, one result line on stdout.  Floats
   are C99 hex.  The objective / the minimiser implementation is an oracle
   table recorded from the Python run: the model asks for a point, the table
   answers; a point that is not in the table (bit-exact match) means that the
   model left the implementation's path and is reported as MISS. *)
exception Miss of string

let feq (a : float) (b : float) = (a = b) || (Float.is_nan a && Float.is_nan b)
let rec veq a b = match a, b with
  | [], [] -> true | x :: a', y :: b' -> feq x y && veq a' b' | _ -> false
let vs xs = String.concat "," (List.map hx xs)

let rec take n l = if n = 0 then ([], l) else
  match l with x :: r -> let (a, b) = take (n - 1) r in (x :: a, b) | [] -> failwith "short line"
let rec pairs l = match l with a :: b :: r -> (fl a, fl b) :: pairs r | [] -> [] | _ -> failwith "odd"
let rec chunks k l = if l = [] then [] else let (a, b) = take k l in a :: chunks k b

let errname = function
  | IndexError -> "IndexError" | KeyError -> "KeyError" | TypeError -> "TypeError"
  | ValueError -> "ValueError" | NameError -> "NameError" | ZeroDivision -> "ZeroDivisionError"
  | RuntimeError -> "RuntimeError" | AssertionError -> "AssertionError"
  | AttributeError -> "AttributeError" | OutOfFuel -> "OutOfFuel"

(* table of (x-vector, (f, g, g2)) *)
let lookup tab x =
  match List.find_opt (fun (k, _) -> veq k x) tab with
  | Some (_, ((f, g), g2)) -> ((f, g), g2)
  | None -> raise (Miss (vs x))

let parse_tab d toks =
  List.map (fun c -> let (k, v) = take d c in
             match List.map fl v with
             | [f; g; g2] -> (List.map fl k, ((f, g), g2))
             | _ -> failwith "tab") (chunks (d + 3) toks)

let show_nr (r : float nrres) =
  Printf.sprintf "%d %d %s %s" (int_of_z r.r_flag) (int_of_z r.r_niter) (hx r.r_step)
    (String.concat " " (List.map hx r.r_trace))

(* nr|scan d ns_pidx ns_tol max_steps max_reps (lo hi)*d init*d [np2 p2*np2] table *)
let run_nr kind toks =
  match toks with
  | d :: pidx :: tol :: ms :: mr :: rest ->
      let d = int_of_string d in
      let pidx = z_of_int (int_of_string pidx) in
      let (b, rest) = take (2 * d) rest in
      let (ini, rest) = take d rest in
      let bounds = pairs b and ini = List.map fl ini in
      let (p2s, rest) = if kind = "scan" then
          (match rest with n :: r -> let (a, r') = take (int_of_string n) r in (List.map fl a, r')
                         | [] -> failwith "scan") else ([], rest) in
      let tab = parse_tab d (match rest with _ :: r -> r | [] -> []) in
      let unif _ = [] in
      if kind = "nr" then
        (* the table holds the log-likelihood ratio and its derivatives *)
        (match maximize_nr numf pidx (lookup tab) (fl tol) (z_of_int (int_of_string ms))
                 (z_of_int (int_of_string mr)) bounds unif ini with
         | Ok ((ll, x), st) -> Printf.sprintf "Ok %s %s | %s" (hx ll) (vs x) (show_nr st)
         | Err e -> "Err " ^ errname e)
      else
        (* the table holds the log-likelihood ratio and its derivatives; TCLLHRatio.maximize with NR + scan *)
        (match maximize_scan numf pidx (lookup tab) (fl tol) (z_of_int (int_of_string ms))
                 (z_of_int (int_of_string mr)) bounds p2s unif ini with
         | Ok ((ll, x), st) ->
             Printf.sprintf "Ok %s %s 0 | %s" (hx ll) (vs x) (show_nr st)
         | Err e -> "Err " ^ errname e)
  | _ -> "ERR"

(* wrap d max_reps (lo hi)*d init*d
     ncalls ( E kind | R ini*d x*d f conv rep )*ncalls
     nunif (u*d)*nunif
     nre ( E kind | R x*d f )*nre *)
type call = CErr of err | CRes of float list * float list * float * bool * bool
let err_of = function
  | "IndexError" -> IndexError | "KeyError" -> KeyError | "TypeError" -> TypeError
  | "ValueError" -> ValueError | "ZeroDivisionError" -> ZeroDivision
  | "RuntimeError" -> RuntimeError | "AssertionError" -> AssertionError
  | "AttributeError" -> AttributeError | _ -> RuntimeError

let run_wrap gen toks =
  match toks with
  | d :: mr :: rest ->
      let d = int_of_string d in
      let (b, rest) = take (2 * d) rest in
      let (ini, rest) = take d rest in
      let bounds = pairs b and ini = List.map fl ini in
      let rec calls n toks = if n = 0 then ([], toks) else
        match toks with
        | "E" :: k :: r -> let (cs, r') = calls (n - 1) r in (CErr (err_of k) :: cs, r')
        | "R" :: r ->
            let (i, r) = take d r in let (x, r) = take d r in
            (match r with f :: c :: p :: r ->
               let (cs, r') = calls (n - 1) r in
               (CRes (List.map fl i, List.map fl x, fl f, c = "1", p = "1") :: cs, r')
             | _ -> failwith "call")
        | _ -> failwith "calls" in
      let (cs, rest) = (match rest with n :: r -> calls (int_of_string n) r | [] -> failwith "wrap") in
      let (us, rest) = (match rest with n :: r ->
          let (a, r') = take (d * int_of_string n) r in (chunks d (List.map fl a), r') | [] -> failwith "u") in
      let res = (match rest with n :: r -> ignore n; r | [] -> failwith "re") in
      let rec reparse toks = match toks with
        | [] -> []
        | "E" :: k :: r -> (None, Err (err_of k)) :: reparse r
        | "R" :: r -> let (x, r) = take d r in
            (match r with f :: r -> (Some (List.map fl x), Ok (fl f)) :: reparse r | [] -> failwith "re")
        | _ -> failwith "re" in
      let retab = reparse res in
      let impl k i =
        let k = int_of_z k in
        (match List.nth_opt cs k with
         | None -> raise (Miss ("call#" ^ string_of_int k))
         | Some (CErr e) -> Err e
         | Some (CRes (i', x, f, c, p)) ->
             if not (veq i i') then raise (Miss ("initials#" ^ string_of_int k ^ ":" ^ vs i))
             else Ok ((x, f), (c, p))) in
      let unif k = (match List.nth_opt us (int_of_z k) with Some u -> u | None -> raise (Miss "uniform")) in
      let reeval x = (match retab with
         | [ (None, r) ] -> r
         | [ (Some x', r) ] -> if veq x x' then r else raise (Miss ("reeval:" ^ vs x))
         | _ -> raise (Miss ("reeval:" ^ vs x))) in
      if gen then
        (* generic LLHRatio.maximize: the recorded re-evaluation is the minimised function, llh = its negative *)
        let llh x = (match reeval x with Ok f -> Ok (-. f) | Err e -> Err e) in
        (match maximize_gen numf impl (fun (c, _) -> c) (fun (_, p) -> p) llh bounds unif
                 (z_of_int (int_of_string mr)) ini with
         | Ok ((ll, x), _) -> Printf.sprintf "Ok %s %s 0" (hx ll) (vs x)
         | Err e -> "Err " ^ errname e)
      else
      (match minimize numf impl (fun (c, _) -> c) (fun (_, p) -> p) reeval bounds unif
               (z_of_int (int_of_string mr)) ini with
       | Ok (((x, f), _), reps) -> Printf.sprintf "Ok %s %s %d" (hx f) (vs x) (int_of_z reps)
       | Err e -> "Err " ^ errname e)
  | _ -> "ERR"

let () = iter_lines (fun l ->
  let out =
    try (match words l with
         | "nr" :: r -> run_nr "nr" r
         | "scan" :: r -> run_nr "scan" r
         | "wrap" :: r -> run_wrap false r
         | "gen" :: r -> run_wrap true r
         | _ -> "ERR")
    with Miss s -> "MISS " ^ s
       | Failure s -> "ERR " ^ s in
  print_endline out)
