(* Extraction of the Num-polymorphic log-likelihood-ratio model (C01) to OCaml
   (ExtrOcamlBasic only; the float record is supplied by the hand-written
   driver, no Extract Constant). *)
From Coq Require Import ZArith List Extraction ExtrOcamlBasic.
From Sky Require Import Num M_Llh M_LlhPipe.
Extraction "model.ml" evaluate_value pipe_ratios pipe_value multi_value ev_stable
  Z.of_nat Z.to_nat.
