#!/bin/bash
# the model .vo files may have been rebuilt by another check since our make: bring them up to date first
cd "$(dirname "$0")" && (cd ../../coq && timeout 900 make model/M_Llh.vo model/M_LlhPipe.vo > /dev/null 2>&1)
exec ../common/build_generic.sh zconv
