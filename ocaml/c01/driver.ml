(* C01 driver: one case per line on stdin, one result line on stdout; floats
   are C99 hex.  All arithmetic is done by the extracted model on the record
   `numf`; this file only parses and prints.

   val   opa N ns n R_1..R_n                       -> value n_unstable
   pipe  opa N ns stacked K a_1..a_K nsel npairs src_1.. evt_1.. nf
         { z S_1..S_npairs B_1..B_nsel } * nf       -> value n_unstable R_1..R_len
   multi opa ns J f_1..f_J { N n R_1..R_n } * J     -> value                     *)
let take n l =
  let rec go n l acc = if n = 0 then (List.rev acc, l) else
    match l with x :: r -> go (n - 1) r (x :: acc) | [] -> failwith "short line" in
  go n l []
let ints l = List.map int_of_string l
let nats l = List.map (fun s -> nat_of_int (int_of_string s)) l
let count_unstable opa ntot ns rs =
  List.length (List.filter (fun r ->
    not (ev_stable numf opa ns (numf.ndiv (numf.nsub r 1.0) ntot))) rs)
let () = iter_lines (fun l ->
  try
    match words l with
    | "val" :: opa :: ntot :: ns :: n :: rest ->
        let (rs, _) = take (int_of_string n) rest in
        let rs = List.map fl rs in
        let (opa, ntot, ns) = (fl opa, fl ntot, fl ns) in
        print_endline (hx (evaluate_value numf opa ntot ns rs) ^ " "
                       ^ string_of_int (count_unstable opa ntot ns rs))
    | "pipe" :: opa :: ntot :: ns :: stacked :: k :: rest ->
        let (ak, rest) = take (int_of_string k) rest in
        (match rest with
         | nsel :: npairs :: rest ->
             let nsel = int_of_string nsel and npairs = int_of_string npairs in
             let (src, rest) = take npairs rest in
             let (evt, rest) = take npairs rest in
             (match rest with
              | nf :: rest ->
                  let rec factors n rest acc =
                    if n = 0 then List.rev acc else
                    match rest with
                    | z :: rest ->
                        let (s, rest) = take npairs rest in
                        let (b, rest) = take nsel rest in
                        factors (n - 1) rest (((fl z, List.map fl s), List.map fl b) :: acc)
                    | [] -> failwith "short line" in
                  (match factors (int_of_string nf) rest [] with
                   | f0 :: fs ->
                       let (opa, ntot, ns) = (fl opa, fl ntot, fl ns) in
                       let ri = pipe_ratios numf (stacked = "1") (List.map fl ak)
                                  (nat_of_int nsel) (nats src) (nats evt) f0 fs in
                       let v = pipe_value numf opa ntot ns (stacked = "1") (List.map fl ak)
                                  (nat_of_int nsel) (nats src) (nats evt) f0 fs in
                       print_endline (String.concat " "
                         (hx v :: string_of_int (count_unstable opa ntot ns ri) :: List.map hx ri))
                   | [] -> print_endline "ERR no-factor")
              | [] -> print_endline "ERR")
         | _ -> print_endline "ERR")
    | "multi" :: opa :: ns :: j :: rest ->
        let j = int_of_string j in
        let (f, rest) = take j rest in
        let rec dss n rest acc =
          if n = 0 then List.rev acc else
          match rest with
          | ntot :: cnt :: rest ->
              let (rs, rest) = take (int_of_string cnt) rest in
              dss (n - 1) rest ((fl ntot, List.map fl rs) :: acc)
          | _ -> failwith "short line" in
        print_endline (hx (multi_value numf (fl opa) (fl ns) (List.map fl f) (dss j rest [])))
    | _ -> print_endline "ERR"
  with Failure m -> print_endline ("ERR " ^ m))
