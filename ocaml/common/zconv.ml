(* conversions between OCaml int and the extracted inductive nat / positive / z
   (kept as the extracted datatypes; no Extract Inductive to int) *)
let rec nat_of_int (n : int) : nat = if n <= 0 then O else S (nat_of_int (n - 1))
let rec int_of_nat (n : nat) : int = match n with O -> 0 | S m -> 1 + int_of_nat m
let rec pos_of_int (n : int) : positive =
  if n <= 1 then XH else if n land 1 = 0 then XO (pos_of_int (n lsr 1)) else XI (pos_of_int (n lsr 1))
let rec int_of_pos (p : positive) : int =
  match p with XH -> 1 | XO q -> 2 * int_of_pos q | XI q -> 2 * int_of_pos q + 1
let z_of_int (n : int) : z = if n = 0 then Z0 else if n > 0 then Zpos (pos_of_int n) else Zneg (pos_of_int (- n))
let int_of_z (x : z) : int = match x with Z0 -> 0 | Zpos p -> int_of_pos p | Zneg p -> - (int_of_pos p)
