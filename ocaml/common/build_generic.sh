#!/bin/bash
# usage (from ocaml/<name>/): ../common/build_generic.sh [zconv]
# extract.v -> model.ml ; model.ml + numf.ml (+ zconv.ml) + driver.ml -> driver.exe
set -e
coqc -Q ../../coq Sky extract.v > extract.log 2>&1 || { cat extract.log; exit 1; }
rm -f extract.vo extract.glob extract.vok extract.vos .extract.aux
parts="model.ml ../common/numf.ml"
for a in "$@"; do [ "$a" = zconv ] && parts="$parts ../common/zconv.ml"; done
cat $parts driver.ml > main.ml
ocamlfind ocamlopt -w -a -O3 -package str -linkpkg main.ml -o driver.exe 2> ocaml.log || ocamlfind ocamlopt -w -a -package str -linkpkg main.ml -o driver.exe 2> ocaml.log || { cat ocaml.log; exit 1; }
rm -f main.cm* main.o model.mli
