(* The float instance of the extracted record type `num` (Sky.Num.Num), built
   from OCaml's IEEE double primitives.  Hand-written and trusted; concatenated
   after the extracted model by build.sh, so the field names refer to the
   record type extracted in the same compilation unit.  No Extract Constant. *)

let rint_half_even (x : float) : float =
  if Float.is_integer x || Float.is_nan x || Float.abs x = Float.infinity then x
  else
    let f = Float.floor x in
    let r = x -. f in
    if r < 0.5 then f
    else if r > 0.5 then f +. 1.0
    else if Float.rem f 2.0 = 0.0 then f else f +. 1.0

(* np.mod / Python %: sign of the divisor *)
let py_fmod (x : float) (y : float) : float =
  let r = Float.rem x y in
  if r <> 0.0 && ((r < 0.0) <> (y < 0.0)) then r +. y else r

let numf : float num = {
  nzero = 0.0; none = 1.0;
  nadd = (+.); nsub = (-.); nmul = ( *. ); ndiv = (/.);
  nopp = (fun x -> -. x);
  nltb = (fun a b -> a < b); nleb = (fun a b -> a <= b); neqb = (fun a b -> a = b);
  nsqrt = Float.sqrt; nexp = Float.exp; nln = Float.log; nlog1p = Float.log1p;
  nlog10 = Float.log10;
  nsin = Float.sin; ncos = Float.cos; ntan = Float.tan;
  nasin = Float.asin; nacos = Float.acos; natan = Float.atan;
  nabs = Float.abs; nfloor = Float.floor; nceil = Float.ceil;
  nrint = rint_half_even; ntrunc = Float.trunc;
  nerf = Float.erf;
  natan2 = Float.atan2; npow = Float.pow; nfmod = py_fmod;
  nmin = (fun a b -> if a < b then a else if b < a then b else if Float.is_nan a then a else b);
  nmax = (fun a b -> if a > b then a else if b > a then b else if Float.is_nan a then a else b);
  npi = Float.pi;
  nisnan = Float.is_nan;
}

(* ---------------------------------------------------------------- I/O helpers *)
let fl (s : string) : float =
  match s with
  | "nan" -> Float.nan | "inf" -> Float.infinity | "-inf" -> Float.neg_infinity
  | _ -> float_of_string s            (* accepts C99 hex: 0x1.8p+1 *)

let hx (x : float) : string =
  if Float.is_nan x then "nan"
  else if x = Float.infinity then "inf"
  else if x = Float.neg_infinity then "-inf"
  else Printf.sprintf "%h" x

let words (s : string) : string list =
  List.filter (fun w -> w <> "") (String.split_on_char ' ' (String.trim s))

let rec iter_lines (f : string -> unit) : unit =
  match input_line stdin with
  | l -> f l; iter_lines f
  | exception End_of_file -> ()
