From Coq Require Import ZArith List Extraction ExtrOcamlBasic.
From Sky Require Import Result Num M_Weights.
Extraction "model.ml" weights_eval weights_eval_svc multi_eval_svc stacked_ratio multi_eval slices sw_ratio Z.of_nat Z.to_nat.
