(* C03 driver: one case per line on stdin, one result line on stdout.
   Floats are C99 hex; integers decimal.
     weights J G <group>*            group = n w_1..w_n (m y_1..y_m){J}
     stack K a_1..a_K nsel nv (s e r){nv}
     stackllh  (same as stack)       C01's M_Llh.sw_ratio, no index check
     multi opa ns J G <group>* D (didx N nsel nv (s e r){nv}){D}
     slices n s_1..s_n *)
let err_name = function
  | IndexError -> "IndexError" | KeyError -> "KeyError" | TypeError -> "TypeError"
  | ValueError -> "ValueError" | NameError -> "NameError" | ZeroDivision -> "ZeroDivisionError"
  | RuntimeError -> "RuntimeError" | AssertionError -> "AssertionError"
  | AttributeError -> "AttributeError" | OutOfFuel -> "OutOfFuel"

let toks = ref [||]
let pos = ref 0
let next () = let t = !toks.(!pos) in incr pos; t
let nint () = int_of_string (next ())
let nfl () = fl (next ())
let rec times n f = if n <= 0 then [] else let x = f () in x :: times (n - 1) f

let group j () =
  let n = nint () in
  let w = times n nfl in
  let ycol = times j (fun () -> let m = nint () in times m nfl) in
  (w, ycol)

let vals () =
  let nv = nint () in
  times nv (fun () -> let s = nint () in let e = nint () in let r = nfl () in
                      ((nat_of_int s, nat_of_int e), r))

let fls xs = String.concat " " (List.map hx xs)

let run () =
  match next () with
  | "weights" ->
      (* weights J G K eta_1..eta_K <group>* : the service as an object.  The tables are what the stub
         detector of every (dataset, group) cell stores; record arrays are created per cell by
         to_rec; the stub evaluates the record array it is given (yields of the cell that BUILT it)
         times the eta values of the slice of the source parameters it is handed *)
      let j = nint () in let g = nint () in
      let k = nint () in let eta = Array.of_list (times k nfl) in
      let groups = times g (group j) in
      let ws = List.map fst groups in
      let tbl = Array.of_list (List.map (fun (_, yc) -> Array.of_list yc) groups) in
      let to_rec zj zg zg' = ((int_of_z zj, int_of_z zg), int_of_z zg') in
      let yield_call _ _ ((rj, rg), _) (lo, hi) =
        let t = tbl.(rg).(rj) in
        let lo = int_of_z lo and hi = int_of_z hi in
        let e = List.init (max 0 (hi - lo)) (fun i -> eta.(lo + i)) in
        let lt = List.length t and le = List.length e in
        if lt = le then List.map2 ( *. ) t e
        else if lt = 1 then List.map (fun x -> List.hd t *. x) e
        else if le = 1 then List.map (fun x -> x *. List.hd e) t
        else t in
      (match weights_eval_svc numf (nat_of_int j) (ws, to_rec) [] yield_call with
       | Ok (a, f) ->
           print_endline ("Ok " ^ String.concat " ; " (List.map fls a) ^ " | " ^ fls f)
       | Err e -> print_endline ("Err " ^ err_name e))
  | "stack" ->
      let k = nint () in let a = times k nfl in let nsel = nint () in let v = vals () in
      (match stacked_ratio numf a (nat_of_int nsel) v with
       | Ok r -> print_endline ("Ok " ^ fls r)
       | Err e -> print_endline ("Err " ^ err_name e))
  | "stackllh" ->
      let k = nint () in let a = times k nfl in let nsel = nint () in let v = vals () in
      print_endline ("Ok " ^ fls (sw_ratio numf a (nat_of_int nsel) v))
  | "multi" ->
      let opa = nfl () in let ns = nfl () in
      let j = nint () in let g = nint () in
      let groups = times g (group j) in
      let d = nint () in
      let ds = times d (fun () ->
        let didx = nint () in let n = nfl () in let nsel = nint () in let v = vals () in
        (((z_of_int didx, n), nat_of_int nsel), v)) in
      (match multi_eval numf opa ns (nat_of_int j) groups ds with
       | Ok v -> print_endline ("Ok " ^ hx v)
       | Err e -> print_endline ("Err " ^ err_name e))
  | "slices" ->
      let n = nint () in let s = times n nint in
      let r = slices (List.map z_of_int s) in
      print_endline (String.concat " " (List.map (fun (a, b) ->
        Printf.sprintf "%d:%d" (int_of_z a) (int_of_z b)) r))
  | _ -> print_endline "ERR"

let () = iter_lines (fun l ->
  toks := Array.of_list (words l); pos := 0;
  try run () with Invalid_argument _ | Failure _ -> print_endline "ERR")
