(* C12 driver: one case per line on stdin, one result line on stdout.
   Words are separated by blanks, argument groups by "|".  Floats are C99 hex,
   integers decimal.  Hand-written and trusted (parsing / printing only). *)
let rec split_bar (ws : string list) : string list list =
  let rec go acc cur = function
    | [] -> List.rev (List.rev cur :: acc)
    | "|" :: r -> go (List.rev cur :: acc) [] r
    | w :: r -> go acc (w :: cur) r in
  go [] [] ws

let zi s = z_of_int (int_of_string s)
let err_name = function
  | IndexError -> "IndexError" | KeyError -> "KeyError" | TypeError -> "TypeError"
  | ValueError -> "ValueError" | NameError -> "NameError" | ZeroDivision -> "ZeroDivisionError"
  | RuntimeError -> "RuntimeError" | AssertionError -> "AssertionError"
  | AttributeError -> "AttributeError" | OutOfFuel -> "OutOfFuel"
let err_of = function
  | "IndexError" -> IndexError | "KeyError" -> KeyError | "TypeError" -> TypeError
  | "ValueError" -> ValueError | "RuntimeError" -> RuntimeError | "ZeroDivisionError" -> ZeroDivision
  | _ -> AssertionError
let pr_res = function Ok x -> print_endline ("Ok " ^ hx x) | Err e -> print_endline ("Err " ^ err_name e)
let op_of = function "gt" -> Greater | "ge" -> GreaterEqual | _ -> OtherOp

(* the log-likelihood-ratio object: signature #k of real_sigs, body
   b + ns + 1024 * ns_pidx (the Python stub computes the same), a constant `C b`, or an exception `E name` *)
let callee_of (k : string) (body : string list) : float callee =
  let sg = List.nth real_sigs (int_of_string k) in
  match body with
  | ["E"; nm] -> { c_sig = sg; c_body = (fun _ _ -> Err (err_of nm)) }
  | ["C"; b] -> { c_sig = sg; c_body = (fun _ _ -> Ok (fl b)) }
  | [b] -> { c_sig = sg; c_body = (fun ns i -> Ok (fl b +. ns +. 1024.0 *. float_of_int (int_of_z i))) }
  | _ -> failwith "callee"

let kws_of = function "cur" -> taylor_call_kws | "old" -> taylor_call_kws_b047c50_before | _ -> failwith "kws"

let () = iter_lines (fun l ->
  try
  match split_bar (words l) with
  | [["wilks"; nm; ll]; fl_; fpv] ->
      pr_res (wilks numf (List.map zi fl_) (zi nm) (fl ll) (List.map fl fpv))
  | [("taylor" :: nm :: ll :: kws :: k :: body); fl_; fpv; grads] ->
      pr_res (taylor_with numf (kws_of kws) (List.map zi fl_) (zi nm) (fl ll) (List.map fl fpv)
                (callee_of k body) (List.map fl grads))
  | [("ana" :: v :: kw :: nm :: ll :: k :: body); fl_; fpv; grads] ->
      let v = (match v with "W" -> VWilks | _ -> VTaylor) in
      let c = callee_of k body and g = List.map fl grads in
      let (kl, kg) = (match kw with
        | "both" -> (Some c, Some g) | "llh" -> (Some c, None) | "grads" -> (None, Some g) | _ -> (None, None)) in
      if kw = "pub" then pr_res (analysis_public_ts numf v (List.map zi fl_) (zi nm) (fl ll) (List.map fl fpv))
      else pr_res (analysis_calculate_ts numf v (List.map zi fl_) (zi nm) (fl ll) (List.map fl fpv) kl kg)
  | [["pval"; op; thr]; ts] ->
      (match pval_trials numf (op_of op) (List.map zi ts) (zi thr) with
       | Ok (p, s) -> print_endline ("Ok " ^ hx p ^ " " ^ hx s)
       | Err e -> print_endline ("Err " ^ err_name e))
  | [["counts"; op; thr]; ts] ->
      (match pval_counts (op_of op) (List.map zi ts) (zi thr) with
       | Ok (k, n) -> Printf.printf "Ok %d %d\n" (int_of_z k) (int_of_z n)
       | Err e -> print_endline ("Err " ^ err_name e))
  | [["mixed"; op; thr; sw; eta; nmax]; ts] ->
      let eta = if eta = "-" then None else Some (zi eta) in
      (match pval_mixed (op_of op) (List.map zi ts) (zi thr) (zi sw) eta (zi nmax) with
       | Ok (ByTrials (k, n)) -> Printf.printf "T %d %d\n" (int_of_z k) (int_of_z n)
       | Ok (ByGammaFit (t, e, m)) -> Printf.printf "G %d %d %d\n" (int_of_z t) (int_of_z e) (int_of_z m)
       | Err e -> print_endline ("Err " ^ err_name e))
  | [["mixedfull"; op; thr; sw; eta; nmax; s_eta; s_thr]; ts] ->
      (* the fitted survival function is an oracle: its two values used by the implementation are handed in *)
      let eta_o = if eta = "-" then None else Some (zi eta) in
      let eta_z = (match eta_o with None -> int_of_string sw | Some e -> int_of_z e) in
      let sf _ _ x = if int_of_z x = eta_z then fl s_eta else fl s_thr in
      let tsz = List.map zi ts in
      (match pval_mixed_full numf sf (op_of op) tsz (zi thr) (zi sw) eta_o (zi nmax) with
       | Ok (p, s) ->
           let cnt = (if int_of_string thr < int_of_string sw then "T"
                      else match gammafit_counts tsz (zi thr) (z_of_int eta_z) (zi nmax) with
                           | Ok ((k, n), _) -> Printf.sprintf "G %d %d" (int_of_z k) (int_of_z n)
                           | Err _ -> "G ? ?") in
           print_endline ("Ok " ^ hx p ^ " " ^ hx s ^ " " ^ cnt)
       | Err e -> print_endline ("Err " ^ err_name e))
  | (["taylorreal"; nm; ll; kind] :: fl_ :: fpv :: grads :: fs :: blocks) ->
      (* real callee bodies: blocks = "S|N nsel npure g..." (ZeroSigH0 state), fs = dataset weight factors *)
      let zs b = (match b with
        | flag :: nsel :: npure :: g ->
            zerosig_callee numf (if flag = "S" then Some (List.map fl g) else None) (zi nsel) (zi npure)
        | _ -> failwith "block") in
      let subs = List.map zs blocks in
      let c = (match kind with
        | "zs" -> List.hd subs
        | "md" -> multi_callee numf (List.map fl fs) subs
        | "np" -> nsprofile_callee (multi_callee numf (List.map fl fs) subs)
        | _ -> failwith "kind") in
      pr_res (taylor numf (List.map zi fl_) (zi nm) (fl ll) (List.map fl fpv) c (List.map fl grads))
  | [["tgobj"; c; s; n]] -> print_endline ("Ok " ^ hx (tg_objective numf (fl c) (fl s) (zi n)))
  | (["poly"; deg; p] :: tabs) ->
      let tab = List.map (fun t -> match t with
        | d :: "E" :: [nm] -> (int_of_string d, Err (err_of nm))
        | d :: cs -> (int_of_string d, Ok (List.map fl cs))
        | [] -> failwith "tab") tabs in
      let polyfit d = (match List.assoc_opt (int_of_z d) tab with Some r -> r | None -> Err ValueError) in
      pr_res (polynomial_fit numf polyfit (zi deg) (fl p))
  | [("bind" :: k :: kws)] ->
      let kw_of = (function "ns" -> K_ns | "ns_pidx" -> K_ns_pidx | "src_params_recarray" -> K_src_params_recarray
                          | "tl" -> K_tl | "fitparam_values" -> K_fitparam_values | _ -> K_other (z_of_int 1)) in
      let given = (match kws with ["cur"] -> taylor_call_kws | ["old"] -> taylor_call_kws_b047c50_before
                                | _ -> List.map kw_of kws) in
      print_endline (if bind_ok (List.nth real_sigs (int_of_string k)) given then "true" else "false")
  | _ -> print_endline "ERR"
  with ex -> print_endline ("ERR " ^ Printexc.to_string ex))
