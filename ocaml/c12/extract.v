(* Extraction of the C12 model to OCaml (ExtrOcamlBasic only; the float record
   is supplied by the hand-written driver). *)
From Coq Require Import ZArith List Extraction ExtrOcamlBasic.
From Sky Require Import Result PyList Num M_Stat.
Extraction "model.ml" wilks taylor taylor_with analysis_calculate_ts analysis_public_ts
  pval_counts pval_trials pval_mixed gammafit_counts pval_gammafit pval_mixed_full polynomial_fit zerosig_callee multi_callee nsprofile_callee tg_objective real_sigs taylor_call_kws
  taylor_call_kws_b047c50_before bind_ok Z.of_nat Z.to_nat.
