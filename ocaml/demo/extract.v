From Coq Require Import ZArith List Extraction ExtrOcamlBasic.
From Sky Require Import Num.
Definition demo {T} (N : Num T) (x y : T) : T := nadd N (nmul N x (ofZ N 3)) (nlog1p N y).
Definition demo_sum {T} (N : Num T) (l : list T) : T := nsum N l.
Extraction "model.ml" demo demo_sum Z.of_nat Z.to_nat.
