let () = iter_lines (fun l ->
  match words l with
  | ["demo"; x; y] -> print_endline (hx (demo numf (fl x) (fl y)))
  | "sum" :: xs -> print_endline (hx (demo_sum numf (List.map fl xs)))
  | _ -> print_endline "ERR")
