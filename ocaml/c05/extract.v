From Coq Require Import ZArith List Extraction ExtrOcamlBasic.
From Sky Require Import Num G_select M_SelectNum.
Extraction "model.ml" mat_dec mat_raband mat_box_ra mat_box_ra_b mat_box_dec mat_angerr row_psifunc angsep_floor_list Z.of_nat Z.to_nat.
