(* C05 driver: one request per line
     <kind> <params...> <ns> <ne> <src ra dec>*ns <evt ra dec ang_err psi>*ne      (floats as C99 hex)
   kinds: dec d | raband d | boxra d | boxrab d | boxdec d | angerr a b floor | psifunc c
   answer: the criterion matrix, rows (sources) separated by ',', entries 0/1 *)
let rec take n l =
  if n = 0 then ([], l)
  else match l with x :: r -> let (a, b) = take (n - 1) r in (x :: a, b) | [] -> failwith "short"
let rec pairs = function a :: b :: r -> (a, b) :: pairs r | [] -> [] | _ -> failwith "odd"
let rec quads = function a :: b :: c :: d :: r -> (((a, b), c), d) :: quads r | [] -> [] | _ -> failwith "quad"
let show m =
  String.concat "," (List.map (fun row -> String.concat "" (List.map (fun b -> if b then "1" else "0") row)) m)

let rec quads4 = function a :: b :: c :: d :: r -> (((a, b), c), d) :: quads4 r | [] -> [] | _ -> failwith "quad"

let () = iter_lines (fun l ->
  try
    match words l with
    | "angsepf" :: fl_ :: nums ->
      (* angsepf <floor|none> <ra1 dec1 ra2 dec2>*  -> the separations as hex floats *)
      let floor = (if fl_ = "none" then None else Some (fl fl_)) in
      let rows = quads4 (List.map fl nums) in
      print_endline (String.concat " " (List.map hx (angsep_floor_list numf rows floor)))
    | kind :: rest ->
      let np = (match kind with "angerr" -> 3 | _ -> 1) in
      let (ps, rest) = take np rest in
      let ps = List.map fl ps in
      (match rest with
       | ns :: ne :: nums ->
         let ns = int_of_string ns and ne = int_of_string ne in
         let nums = List.map fl nums in
         let (s, e) = take (2 * ns) nums in
         let srcs = pairs s and evs = quads e in
         if List.length evs <> ne then failwith "ne";
         let m = (match kind, ps with
           | "dec", [d] -> mat_dec numf d srcs evs
           | "raband", [d] -> mat_raband numf d srcs evs
           | "boxra", [d] -> mat_box_ra numf d srcs evs
           | "boxrab", [d] -> mat_box_ra_b numf d srcs evs
           | "boxdec", [d] -> mat_box_dec numf d srcs evs
           | "angerr", [a; b; f] -> mat_angerr numf a b f srcs evs
           | "psifunc", [c] -> [row_psifunc numf c evs]
           | _ -> failwith "kind") in
         print_endline (show m)
       | _ -> print_endline "ERR")
    | [] -> print_endline "ERR"
  with _ -> print_endline "ERR")
