From Coq Require Import ZArith List Extraction ExtrOcamlBasic.
From Sky Require Import Num Result G_pdf M_Pdf M_PdfState.
Extraction "model.ml" S_of S_terms sig_time_pd bkg_time_pd prof_call prof_int lt_is_on lt_between
  eh_band step_integral sh_hist bin_widths sh_pd psf_gauss psf_rayleigh
  tp_time_oor sp_ra_oor sp_dec_oor eh_weight eh_zero_physics
  calc_pd tinit srun sinit s_nodes smooth1 Z.of_nat Z.to_nat.
