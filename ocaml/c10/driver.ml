(* C10 driver: one case per line, floats as C99 hex.
   T box ts te | gauss ts te s, n, 2n interval edges, m, m times
       -> S k term_1..term_k sig_1..sig_m bkg_1..bkg_m
   E n c_1..c_n w_1..w_n      -> h_1..h_n integral
   H n h_1..h_n e_0..e_n      -> Err ValueError | Ok h'_1..h'_n integral
   P sigma_sq psi             -> psf_gauss psf_rayleigh
   Q x                        -> sh_pd x
   V x lo hi                  -> time/ra/dec out-of-range flags *)
let rec take k l =
  if k = 0 then ([], l)
  else match l with x :: r -> let (a, b) = take (k - 1) r in (x :: a, b) | [] -> failwith "short"
let rec pairs l = match l with a :: b :: r -> (a, b) :: pairs r | [] -> [] | _ -> failwith "odd"
let out l = print_endline (String.concat " " l)
let b2s b = if b then "1" else "0"

let () = iter_lines (fun l ->
  try
    match words l with
    | "T" :: kind :: rest ->
      let (p, rest) = (match kind, rest with
        | "box", ts :: te :: r -> (Box (fl ts, fl te), r)
        | "gauss", ts :: te :: s :: r -> (Gauss (fl ts, fl te, fl s), r)
        | _ -> failwith "profile") in
      (match rest with
       | n :: r ->
         let n = int_of_string n in
         let (iv, r) = take (2 * n) r in
         let ivs = pairs (List.map fl iv) in
         (match r with
          | _ :: ts ->
            let ts = List.map fl ts in
            let s = s_of numf ivs p in
            let terms = s_terms numf ivs p in
            let sg = List.map (fun t -> sig_time_pd numf ivs p t) ts in
            let bg = List.map (fun t -> bkg_time_pd numf ivs p t) ts in
            out (hx s :: string_of_int (List.length terms) :: (List.map hx terms @ List.map hx sg @ List.map hx bg))
          | [] -> failwith "times")
       | [] -> failwith "n")
    | "E" :: n :: r ->
      let n = int_of_string n in
      let (c, w) = take n (List.map fl r) in
      let h = eh_band numf c w in
      out (List.map hx h @ [hx (step_integral numf h w)])
    | "H" :: n :: r ->
      let n = int_of_string n in
      let (h, e) = take n (List.map fl r) in
      (match sh_hist numf h e with
       | Ok h' -> out ("Ok" :: (List.map hx h' @ [hx (step_integral numf h' (bin_widths numf e))]))
       | Err _ -> out ["Err"; "ValueError"])
    | ["P"; q; psi] -> out [hx (psf_gauss numf (fl q) (fl psi)); hx (psf_rayleigh numf (fl q) (fl psi))]
    | ["Q"; x] -> out [hx (sh_pd numf (fl x))]
    | ["V"; x; lo; hi] ->
      out [b2s (tp_time_oor numf (fl x) (fl lo) (fl hi)); b2s (sp_ra_oor numf (fl x) (fl lo) (fl hi));
           b2s (sp_dec_oor numf (fl x) (fl lo) (fl hi))]
    | "MS" :: kind :: rest ->
      (* MS box ts te | gauss ts te s, tol, n, 2n edges, K, 2K row values, m, m times
         -> per source: S_k (state after its row) then m densities *)
      let (p, rest) = (match kind, rest with
        | "box", ts :: te :: r -> (Box (fl ts, fl te), r)
        | "gauss", ts :: te :: s :: r -> (Gauss (fl ts, fl te, fl s), r)
        | _ -> failwith "profile") in
      (match rest with
       | tol :: n :: r ->
         let n = int_of_string n in
         let (iv, r) = take (2 * n) r in
         let ivs = pairs (List.map fl iv) in
         (match r with
          | k :: r ->
            let k = int_of_string k in
            let (rw, r) = take (2 * k) r in
            let rows = pairs (List.map fl rw) in
            (match r with
             | _ :: ts ->
               let ts = List.map fl ts in
               (* run source by source to expose the intermediate S *)
               let rec go st rows acc = (match rows with
                 | [] -> List.rev acc
                 | rw :: rs ->
                   let (out, st') = calc_pd numf ivs (fl tol) st [rw] [ts] in
                   go st' rs ((hx (snd st') :: List.map hx (List.concat out)) :: acc)) in
               out (List.concat (go (tinit numf ivs p) rows []))
             | [] -> failwith "times")
          | [] -> failwith "k")
       | _ -> failwith "tol")
    | "AE" :: n :: r ->
      (* AE n orig(n) edges(n+1) then ops: A u(n) | R  -> "Err ..." or nodes after every op *)
      let n = int_of_string n in
      let (orig, r) = take n r in
      let (edges, r) = take (n + 1) r in
      let orig = List.map fl orig and edges = List.map fl edges in
      (match sinit numf orig edges with
       | Err _ -> out ["Err"; "ValueError"]
       | Ok st0 ->
         let rec go st toks acc = (match toks with
           | [] -> List.rev acc
           | "R" :: rest -> let st' = srun numf edges st [Reset] in go st' rest (List.map hx st'.s_nodes :: acc)
           | "A" :: rest -> let (u, rest) = take n rest in
                            let st' = srun numf edges st [AddEvents (List.map fl u)] in
                            go st' rest (List.map hx st'.s_nodes :: acc)
           | _ -> failwith "op") in
         out ("Ok" :: List.concat (go st0 r [List.map hx st0.s_nodes])))
    | "ES" :: n :: r ->
      (* ES n c(n) w(n) nk k(nk) -> smooth1 k (eh_band c w) *)
      let n = int_of_string n in
      let (c, r) = take n r in
      let (w, r) = take n r in
      (match r with
       | _ :: k -> out (List.map hx (smooth1 numf (List.map fl k) (eh_band numf (List.map fl c) (List.map fl w))))
       | [] -> failwith "k")
    | "SM" :: nk :: r ->
      let nk = int_of_string nk in
      let (k, r) = take nk r in
      (match r with
       | _ :: h -> out (List.map hx (smooth1 numf (List.map fl k) (List.map fl h)))
       | [] -> failwith "h")
    | _ -> print_endline "ERR"
  with Failure m -> print_endline ("ERR " ^ m))
