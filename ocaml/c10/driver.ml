(* C10 driver: one case per line, floats as C99 hex.
   T box ts te | gauss ts te s, n, 2n interval edges, m, m times
       -> S k term_1..term_k sig_1..sig_m bkg_1..bkg_m
   E n c_1..c_n w_1..w_n      -> h_1..h_n integral
   H n h_1..h_n e_0..e_n      -> Err ValueError | Ok h'_1..h'_n integral
   P sigma_sq psi             -> psf_gauss psf_rayleigh
   Q x                        -> sh_pd x
   V x lo hi                  -> time/ra/dec out-of-range flags *)
let rec take k l =
  if k = 0 then ([], l)
  else match l with x :: r -> let (a, b) = take (k - 1) r in (x :: a, b) | [] -> failwith "short"
let rec pairs l = match l with a :: b :: r -> (a, b) :: pairs r | [] -> [] | _ -> failwith "odd"
let out l = print_endline (String.concat " " l)
let b2s b = if b then "1" else "0"

let () = iter_lines (fun l ->
  try
    match words l with
    | "T" :: kind :: rest ->
      let (p, rest) = (match kind, rest with
        | "box", ts :: te :: r -> (Box (fl ts, fl te), r)
        | "gauss", ts :: te :: s :: r -> (Gauss (fl ts, fl te, fl s), r)
        | _ -> failwith "profile") in
      (match rest with
       | n :: r ->
         let n = int_of_string n in
         let (iv, r) = take (2 * n) r in
         let ivs = pairs (List.map fl iv) in
         (match r with
          | _ :: ts ->
            let ts = List.map fl ts in
            let s = s_of numf ivs p in
            let terms = s_terms numf ivs p in
            let sg = List.map (fun t -> sig_time_pd numf ivs p t) ts in
            let bg = List.map (fun t -> bkg_time_pd numf ivs p t) ts in
            out (hx s :: string_of_int (List.length terms) :: (List.map hx terms @ List.map hx sg @ List.map hx bg))
          | [] -> failwith "times")
       | [] -> failwith "n")
    | "E" :: n :: r ->
      let n = int_of_string n in
      let (c, w) = take n (List.map fl r) in
      let h = eh_band numf c w in
      out (List.map hx h @ [hx (step_integral numf h w)])
    | "H" :: n :: r ->
      let n = int_of_string n in
      let (h, e) = take n (List.map fl r) in
      (match sh_hist numf h e with
       | Ok h' -> out ("Ok" :: (List.map hx h' @ [hx (step_integral numf h' (bin_widths numf e))]))
       | Err _ -> out ["Err"; "ValueError"])
    | ["P"; q; psi] -> out [hx (psf_gauss numf (fl q) (fl psi)); hx (psf_rayleigh numf (fl q) (fl psi))]
    | ["Q"; x] -> out [hx (sh_pd numf (fl x))]
    | ["V"; x; lo; hi] ->
      out [b2s (tp_time_oor numf (fl x) (fl lo) (fl hi)); b2s (sp_ra_oor numf (fl x) (fl lo) (fl hi));
           b2s (sp_dec_oor numf (fl x) (fl lo) (fl hi))]
    | _ -> print_endline "ERR"
  with Failure m -> print_endline ("ERR " ^ m))
