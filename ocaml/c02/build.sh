#!/bin/bash
cd "$(dirname "$0")" && exec ../common/build_generic.sh zconv
