(* one case per line:
   pipe opa ns nd { N nsel nsrc a[nsrc] hasda da[nsrc if hasda] nrows { k e R dR }*nrows }*nd
     -> value gns gp g2
   sob z s ds b db sigdep bkgdep -> ratio grad *)
let rec take n l = if n = 0 then ([], l) else match l with x :: r -> let (a, b) = take (n - 1) r in (x :: a, b) | [] -> failwith "short"
let rec rows n l acc accd =
  if n = 0 then (List.rev acc, List.rev accd, l)
  else match l with
    | k :: e :: r :: dr :: rest ->
        let kk = nat_of_int (int_of_string k) and ee = nat_of_int (int_of_string e) in
        rows (n - 1) rest (((kk, ee), fl r) :: acc) (((kk, ee), fl dr) :: accd)
    | _ -> failwith "rows"
let rec dsets n l acc =
  if n = 0 then List.rev acc
  else match l with
    | nn :: nsel :: nsrc :: rest ->
        let ns = int_of_string nsrc in
        let (a, rest) = take ns rest in
        (match rest with
         | hasda :: rest ->
             let (da, rest) = if hasda = "1" then (let (d, r) = take ns rest in (Some (List.map fl d), r)) else (None, rest) in
             (match rest with
              | nrows :: rest ->
                  let (v, dv, rest) = rows (int_of_string nrows) rest [] [] in
                  dsets (n - 1) rest ((((((fl nn, nat_of_int (int_of_string nsel)), List.map fl a), da), v), dv) :: acc)
              | [] -> failwith "nrows")
         | [] -> failwith "hasda")
    | _ -> failwith "dset"
let () = iter_lines (fun l ->
  try
    match words l with
    | "pipe" :: opa :: ns :: nd :: rest ->
        let ds = dsets (int_of_string nd) rest [] in
        let (((v, gns), gp), g2) = pipeline_eval numf (fl opa) (fl ns) ds in
        print_endline (String.concat " " [hx v; hx gns; hx gp; hx g2])
    | ["sob"; z; s; ds; b; db; sd; bd] ->
        let (r, g) = sob_eval numf (fl z) (fl s) (fl ds) (fl b) (fl db) (sd = "1") (bd = "1") in
        print_endline (hx r ^ " " ^ hx g)
    | _ -> print_endline "ERR"
  with _ -> print_endline "ERR")
