From Coq Require Import ZArith List Extraction ExtrOcamlBasic.
From Sky Require Import Num M_Llh M_LlhGrad.
Extraction "model.ml" pipeline_eval sob_eval Z.of_nat Z.to_nat.
