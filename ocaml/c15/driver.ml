(* C15 driver: one case per line on stdin, one result line on stdout; floats
   are C99 hex.  See harness/c15.py for the case formats. *)
let errs = function
  | IndexError -> "IndexError" | KeyError -> "KeyError" | TypeError -> "TypeError"
  | ValueError -> "ValueError" | NameError -> "NameError" | ZeroDivision -> "ZeroDivision"
  | RuntimeError -> "RuntimeError" | AssertionError -> "AssertionError"
  | AttributeError -> "AttributeError" | OutOfFuel -> "OutOfFuel"
let rec take n l = if n = 0 then ([], l) else match l with
  | x :: r -> let (a, b) = take (n - 1) r in (x :: a, b)
  | [] -> failwith "short line"
(* read "<n> x1 .. xn" *)
let counted f l = match l with
  | n :: r -> let (a, b) = take (int_of_string n) r in (List.map f a, b)
  | [] -> failwith "short line"
let pr toks = print_endline (String.concat " " toks)
let bstr b = if b then "1" else "0"
let resf = function Ok x -> hx x | Err e -> "E:" ^ errs e

(* the manifold family shared with the harness (same operations, same order) *)
let manifold fam c0 c1 c2 c3 = fun (id : z) (x : float) (s : nat) (e : nat) ->
  let i = float_of_int (int_of_z id) and s = float_of_int (int_of_nat s)
  and e = float_of_int (int_of_nat e) in
  let k0 = c0 +. 0.5 *. i +. 0.25 *. s +. 0.125 *. e in
  let k1 = c1 *. (1.0 +. 0.25 *. s -. 0.5 *. e) in
  let k2 = c2 *. (1.0 +. 0.125 *. s) in
  if fam = 0 then k0 +. k1 *. x +. k2 *. x *. x
  else k0 +. k1 *. Float.exp (c3 *. x) +. k2 *. Float.sin x

let rec pairs = function
  | a :: b :: r -> (nat_of_int (int_of_string a), nat_of_int (int_of_string b)) :: pairs r
  | _ -> []

let grid_case dec delta0 ext rest =
  let (arr, rest) = counted fl rest in
  let (vs, _) = counted fl rest in
  let p0 = pg_make numf (fl delta0) (z_of_int (int_of_string dec)) arr in
  let p = match p0 with
    | Ok p -> if ext = "1" then pg_extend numf p else Ok p
    | Err e -> Err e in
  (p, vs)

let interp_case kind rest =
  match rest with
  | dec :: delta0 :: rest ->
    let (arr, rest) = counted fl rest in
    (match rest with
     | fam :: c0 :: c1 :: c2 :: c3 :: rest ->
       let fmf = manifold (int_of_string fam) (fl c0) (fl c1) (fl c2) (fl c3) in
       (match rest with
        | nidx :: rest ->
          let (ix, rest) = take (2 * int_of_string nidx) rest in
          let idxs = pairs ix in
          (match pg_make numf (fl delta0) (z_of_int (int_of_string dec)) arr with
           | Err e -> pr ["Err"; errs e]
           | Ok p ->
             let g = p.pg_desc in
             let out = ref [] in
             let ncalls = int_of_string (List.hd rest) in
             let rest = ref (List.tl rest) in
             let lst = ref None and pst = ref None in
             for _ = 1 to ncalls do
               let id = z_of_int (int_of_string (List.hd !rest)) in
               let (xs, r) = counted fl (List.tl !rest) in
               rest := r;
               let show vs gs = out := !out @ (["Ok"; string_of_int (List.length vs)] @ List.map hx vs @ List.map hx gs) in
               if kind = "L" then
                 (match lin_call numf g fmf idxs !lst id xs with
                  | Ok ((vs, gs), st) -> lst := st; show vs gs
                  | Err e -> out := !out @ ["Err"; errs e])
               else
                 (match par_call numf g fmf idxs !pst id xs with
                  | Ok ((vs, gs), st) -> pst := st; show vs gs
                  | Err e -> out := !out @ ["Err"; errs e])
             done;
             pr !out)
        | _ -> pr ["ERR"])
     | _ -> pr ["ERR"])
  | _ -> pr ["ERR"]

let () = iter_lines (fun l ->
  try
    match words l with
    | "G" :: dec :: delta0 :: ext :: rest ->
      (match grid_case dec delta0 ext rest with
       | (Err e, _) -> pr ["Err"; errs e]
       | (Ok p, vs) ->
         let g = p.pg_desc in
         let per v = [hx (floatD numf g v); hx (intD numf g v); hx (round_nearest numf g v);
                      hx (round_lower numf g v); hx (round_upper numf g v)] in
         pr (["Ok"; hx g.g_lb; hx g.g_delta; string_of_int (List.length p.pg_grid)]
             @ List.map hx p.pg_grid @ [bstr (self_consistent numf p)]
             @ List.concat (List.map per vs)))
    | "I" :: ext :: rest ->
      let (grid, rest) = counted fl rest in
      let (vs, _) = counted fl rest in
      let gr = if ext = "1" then irr_extend numf grid else Ok grid in
      (match gr with
       | Err e -> pr ["Err"; errs e]
       | Ok grid ->
         let per v = [resf (irr_nearest numf grid v); resf (irr_lower numf grid v); resf (irr_upper numf grid v)] in
         pr (["Ok"; string_of_int (List.length grid)] @ List.map hx grid @ List.concat (List.map per vs)))
    | "L" :: rest -> interp_case "L" rest
    | "P" :: rest -> interp_case "P" rest
    | _ -> print_endline "ERR"
  with Failure m -> print_endline ("ERR " ^ m) | Not_found -> print_endline "ERR nf")
