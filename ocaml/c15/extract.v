(* Extraction of the Num-polymorphic grid / interpolation model to OCaml
   (ExtrOcamlBasic only; the IEEE double record `numf` is supplied by the
   hand-written ocaml/common/numf.ml). *)
From Coq Require Import ZArith List Extraction ExtrOcamlBasic.
From Sky Require Import Result PyList Num M_Grid.
Extraction "model.ml" pg_make pg_extend floatD intD round_nearest round_lower round_upper
  self_consistent irr_nearest irr_lower irr_upper irr_extend lin_call par_call
  lin_value1 lin_grad1 par_value1 par_grad1 Z.of_nat Z.to_nat.
