(* Extraction of the Num-polymorphic coordinate model to OCaml (ExtrOcamlBasic
   only; the float record is supplied by the hand-written driver). *)
From Coq Require Import ZArith List Extraction ExtrOcamlBasic.
From Sky Require Import Num M_Coords M_CoordsPdf.
Extraction "model.ml" angsep sep_hav signalpdf_psi tdm_psi rot_sv rot_matrix rot_cosa
  azi2ra ra2azi hor2equ psi2decra p2d_xyz uvec dot rses_ap ap_separation ap_position_angle ap_offset_by signalpdf_pd Z.of_nat Z.to_nat.
