(* C19 driver: one case per line on stdin, one result line on stdout.
   Floats are C99 hex.  `-` stands for "no psi_floor". *)
let opt s = if s = "-" then None else Some (fl s)
let pr xs = print_endline (String.concat " " (List.map hx xs))
let () = iter_lines (fun l ->
  match words l with
  | ["sep"; r1; d1; r2; d2; f] ->
      pr [angsep numf (fl r1) (fl d1) (fl r2) (fl d2) (opt f);
          sep_hav numf (fl r1) (fl d1) (fl r2) (fl d2)]
  | ["spdf"; sr; sd; r; d] -> pr [signalpdf_psi numf (fl sr) (fl sd) (fl r) (fl d)]
  | ["tdm"; r; d; sr; sd; f] -> pr [tdm_psi numf (fl r) (fl d) (fl sr) (fl sd) (opt f)]
  | ["rot"; r1; d1; r2; d2; r3; d3] ->
      let (ra, dec) = rot_sv numf (fl r1) (fl d1) (fl r2) (fl d2) (fl r3) (fl d3) in
      pr [ra; dec]
  | ["rotm"; r1; d1; r2; d2] ->
      let (((a, b), c)) = rot_matrix numf (fl r1) (fl d1) (fl r2) (fl d2) in
      let row ((x, y), z) = [x; y; z] in
      pr (row a @ row b @ row c @ [rot_cosa numf (fl r1) (fl d1) (fl r2) (fl d2)])
  | ["a2r"; azi; mjd] -> pr [azi2ra numf (fl azi) (fl mjd)]
  | ["r2a"; ra; mjd] -> pr [ra2azi numf (fl ra) (fl mjd)]
  | ["h2e"; azi; zen; mjd] ->
      let (ra, dec) = hor2equ numf (fl azi) (fl zen) (fl mjd) in pr [ra; dec]
  | ["p2d"; sd; sr; psi; t] ->
      let (dec, ra) = psi2decra numf (fl sd) (fl sr) (fl psi) (fl t) in
      let ((x, y), z) = p2d_xyz numf (fl sd) (fl sr) (fl psi) (fl t) in
      pr [dec; ra; x; y; z]
  | ["rses"; sr; sd; tr; td; rr; rd] ->
      let (ra, dec) = rses_ap numf (fl sr) (fl sd) (fl tr) (fl td) (fl rr) (fl rd) in pr [ra; dec]
  | ["apsep"; a; b; c; d] -> pr [ap_separation numf (fl a) (fl b) (fl c) (fl d)]
  | ["appa"; a; b; c; d] -> pr [ap_position_angle numf (fl a) (fl b) (fl c) (fl d)]
  | ["apoff"; a; b; c; d] -> let (lo, la) = ap_offset_by numf (fl a) (fl b) (fl c) (fl d) in pr [lo; la]
  | ["spdfpd"; sr; sd; r; d; sg] -> pr [signalpdf_pd numf (fl sr) (fl sd) (fl r) (fl d) (fl sg)]
  | _ -> print_endline "ERR")
